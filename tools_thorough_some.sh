#!/bin/bash
# tools_thorough_some.sh <props...> : thorough tier for the named properties, no evidence written (used through `vp run`)
for p in "$@"; do
  /venv/bin/python "$(dirname "$(readlink -f "$0")")/sim/driver.py" check $p --tier thorough --no-evidence 2>&1 | grep -v "^KNOWN" | cut -c1-330
done
