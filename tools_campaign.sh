#!/bin/bash
# tools_campaign.sh <seed-from> <seed-to> [props...] : runs the quick checks under several VERIF_SEED values
# (no evidence written) to flush out rare alarms on the unchanged tree.
a=$1; b=$2; shift 2
props=${@:-C01 C02 C03 C04 C05 C06 C07 C08 C09 C10 C11 C12 C15 C16 C17 C18 C19}
for sd in $(seq $a $b); do
  for p in $props; do
    VERIF_SEED=$sd /venv/bin/python "$(dirname "$(readlink -f "$0")")/sim/driver.py" check $p --tier quick --no-evidence 2>&1 | grep -v "^KNOWN" | sed "s/^/seed=$sd /" | cut -c1-330
  done
done
