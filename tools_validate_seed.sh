#!/bin/bash
# Usage: tools_validate_seed.sh <ID> <CHECK> [<CHECK>...]      (worktree /tmp/seed/<ID>, deliverables in _out/)
# Confirms an independently written seeded change: demo passes on the original tree and fails with
# the patch (in the author's worktree), the pinned baseline is unchanged, and runs the named checks
# against a patched scratch copy of /repo.
id=$1; shift
W=/tmp/seed/$id; src=$W/_out
S=$(mktemp -d /dev/shm/seedval-XXXXXX)
trap 'rm -rf "$S"' EXIT
mkdir -p $S/tmp
cd $W || exit 2
git checkout -q -- leuvenmapmatching 2>/dev/null
cp -f $src/demo.py $W/demo.py
echo "== demo on original tree"; TMPDIR=$S/tmp PYTHONPATH=$W timeout 600 /venv/bin/python -W ignore demo.py > $S/demo0.log 2>&1; echo "exit $? (want 0)"; tail -2 $S/demo0.log | cut -c1-200
git apply $src/patch.diff || { echo "PATCH DOES NOT APPLY"; exit 1; }
echo "== demo on patched tree"; TMPDIR=$S/tmp PYTHONPATH=$W timeout 600 /venv/bin/python -W ignore demo.py > $S/demo1.log 2>&1; echo "exit $? (want non-zero)"; tail -3 $S/demo1.log | cut -c1-300
rsync -a --exclude .git --exclude build --exclude __pycache__ --exclude _out /repo/ $S/repo/
cd $S/repo && git init -q . && git apply $src/patch.diff || { echo "PATCH DOES NOT APPLY ON /repo COPY"; exit 1; }
echo "== baseline on patched tree"; TMPDIR=$S/tmp /verif/tools_baseline.sh $S/repo
for c in "$@"; do
  echo "== check $c on patched tree"
  VERIF_REPO=$S/repo /venv/bin/python /verif/sim/driver.py check $c --tier quick --no-evidence 2>&1 | cut -c1-250
done
