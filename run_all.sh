#!/bin/bash
# Runs every claimed check once (tier from $1, default quick); prints a summary line per property.
tier=${1:-quick}; shift
rc=0
for p in C01 C02 C03 C04 C05 C06 C07 C08 C09 C10 C11 C12 C15 C16 C17 C18 C19; do
  /venv/bin/python "$(dirname "$(readlink -f "$0")")/sim/driver.py" check $p --tier $tier "$@" 2>&1 | cut -c1-260
  r=${PIPESTATUS[0]}; [ $r -ne 0 ] && { echo "  -> $p exit $r"; rc=1; }
done
exit $rc
