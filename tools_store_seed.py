#!/usr/bin/env python3
"""tools_store_seed.py <worktree-id> <seed-name> <property> <caught_by,comma> <classes seen> : copies a
confirmed seeded change (patch.diff, demo.py, notes.md) to /verif/seeded/<seed-name>/ and writes meta.json."""
import json, os, shutil, sys
wid, name, prop, caught, classes = sys.argv[1:6]
src = "/tmp/seed/%s/_out" % wid
dst = "/verif/seeded/%s" % name
os.makedirs(dst, exist_ok=True)
for f in ("patch.diff", "demo.py", "notes.md"):
    shutil.copy(os.path.join(src, f), os.path.join(dst, f))
notes = open(os.path.join(src, "notes.md")).read()
meta = {
    "property": prop,
    "origin": "independent sub-agent given only the property text and a scratch worktree",
    "needs_to_manifest": notes[:1500],
    "caught_by": [c for c in caught.split(",") if c],
    "violation_classes_reported": classes.split(","),
    "confirmed": {
        "demo_on_original": "exit 0", "demo_with_patch": "non-zero exit (assertion)",
        "baseline_with_patch": "43 of 43 stable tests pass",
        "how": "tools_validate_seed.sh %s %s  (demo both directions in the author's worktree, baseline + checks on a patched scratch copy of /repo via VERIF_REPO)" % (wid, " ".join(caught.split(","))),
    },
}
json.dump(meta, open(os.path.join(dst, "meta.json"), "w"), indent=1)
print("stored", dst)
