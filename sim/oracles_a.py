"""Invariant oracles evaluated after every operation of a World-A session
(C02, C03, C04, C05, C09 and the structural half of C07)."""
import math

from .refgeom import metric, p_dist
from .refscore import Model, Rec, close
from .refstore import RefStore, tup

EXPANDING = ("extend", "widen", "cwd")


class LatticeTracker:
    """History of the lattice as seen from outside: after every operation, for every entry (by key) the
    operation number in which its probability or predecessor last changed, and whether it was scheduled
    for expansion at that time (delayed >= expand_now)."""

    def __init__(self):
        self.h = {}
        self.matcher_id = None
        self.opno = 0

    def update(self, sess, out):
        m = sess.matcher
        self.opno += 1
        if m is None or m.lattice is None:
            return
        if out.kind in ("match", "rematch", "retry", "fresh") or id(m) != self.matcher_id:
            self.h = {}
        self.matcher_id = id(m)
        E = m.expand_now
        for col in m.lattice.values():
            for layer in col.o:
                for key, e in layer.items():
                    cur = (float(e.logprob), tuple(sorted(repr(p.key) for p in e.prev)))
                    old = self.h.get(key)
                    if old is None or old[0] != cur:
                        self.h[key] = (cur, self.opno, e.delayed >= E)


class Ctx:
    """Per-session reference data shared by the oracles."""

    def __init__(self, doc):
        self.doc = doc
        self.world = doc["world"]
        self.latlon = bool(self.world.get("latlon"))
        self.store = RefStore.from_world(self.world)
        self.model = Model(doc["cfg"], self.latlon)
        self.geom = metric(self.latlon)
        self.trace = [tuple(p) for p in doc["trace"]]
        self.maxabs = max(self.store.max_abs(), max((max(abs(p[0]), abs(p[1])) for p in self.trace), default=1.0))
        unit = self.world.get("unit", 1.0)
        if self.latlon:
            self.tol_pos = 0.25      # metres, see DESIGN section 4
            self.tol_dist = 0.1
            self.tol_t = None
        else:
            # rounding grows with the magnitude of the coordinates (64 ulp of the largest one), not the tolerance of the
            # comparison itself: 1e-9 * maxabs would be a centimetre on a map in projected metres (seeded change Q8)
            self.tol_pos = 1e-9 * (1.0 + min(self.maxabs, 100.0 * unit)) + 1e-9 * unit + 2.56e-13 * self.maxabs
            self.tol_dist = self.tol_pos
        self.inmem = doc.get("backend", "inmem") in ("inmem", "inmem_api", "pickle")   # lists a node as its own neighbour
        self.fragile = 0
        self.probes = {}
        self.tracker = LatticeTracker()

    def probe(self, name, n=1):
        self.probes[name] = self.probes.get(name, 0) + n

    def pdist(self, a, b):
        return self.geom.dist(a, b)


def V(cls, detail, out):
    return {"cls": cls, "detail": detail, "op": out.index, "opkind": out.kind}


def _xy(p):
    return (p[0], p[1])


# ----------------------------------------------------------------------------- C02
def rec_from_entry(e):
    em, eo = e.edge_m, e.edge_o
    if em.l2 is None:
        return Rec(em.l1, None, _xy(em.p1), 0.0, None, _xy(eo.pi), e.obs_ne != 0, e.dist_obs)
    return Rec(em.l1, em.l2, _xy(em.pi), em.ti, _xy(em.p2), _xy(eo.pi), e.obs_ne != 0, e.dist_obs)


def _near_parallel(a1, a2, b1, b2):
    ay, ax = a2[0] - a1[0], a2[1] - a1[1]
    by, bx = b2[0] - b1[0], b2[1] - b1[1]
    la, lb = math.hypot(ay, ax), math.hypot(by, bx)
    if la == 0 or lb == 0:
        return False
    s = abs(ay * bx - ax * by) / (la * lb)
    return 0 < s < 1e-6


def check_c02(ctx, sess, out):
    vs = []
    lb = sess.matcher.lattice_best or []
    if not lb:
        return vs
    model, geom, store, trace = ctx.model, ctx.geom, ctx.store, sess.cur_trace
    recs = []
    for i, e in enumerate(lb):
        em, eo = e.edge_m, e.edge_o
        r = rec_from_entry(e)
        where = "entry %d (%r obs=%d ne=%d)" % (i, e.shortkey, e.obs, e.obs_ne)
        # ---- geometry of the reported entry
        if not (0 <= e.obs < len(trace)):
            vs.append(V("C02/geometry/obs-index", where, out))
            return vs
        o1 = _xy(trace[e.obs])
        if e.obs_ne == 0:
            if _xy(eo.p1) != o1 or eo.p2 is not None:
                vs.append(V("C02/geometry/emitting-obs-point", where, out))
            po_true_seg = None
        else:
            if e.obs + 1 >= len(trace):
                vs.append(V("C02/geometry/ne-obs-segment", where, out))
                return vs
            o2 = _xy(trace[e.obs + 1])
            po_true_seg = (o1, o2)
            if _xy(eo.p1) != o1 or eo.p2 is None or _xy(eo.p2) != o2:
                vs.append(V("C02/geometry/ne-obs-segment", where, out))
            elif eo.ti is None or not (-1e-9 <= eo.ti <= 1 + 1e-9) or \
                    geom.dist(geom.point_at(o1, o2, min(1.0, max(0.0, eo.ti))), r.po) > ctx.tol_pos:
                vs.append(V("C02/geometry/ne-obs-point-off-segment", where + " ti=%r pi=%r" % (eo.ti, eo.pi), out))
        if r.l2 is None:
            if r.l1 not in store.loc or _xy(em.p1) != store.loc[r.l1]:
                vs.append(V("C02/geometry/node-coordinates", where, out))
            map_seg = None
        else:
            if r.l1 not in store.loc or r.l2 not in store.loc or _xy(em.p1) != store.loc[r.l1] \
                    or _xy(em.p2) != store.loc[r.l2]:
                vs.append(V("C02/geometry/edge-coordinates", where, out))
                return vs
            map_seg = (store.loc[r.l1], store.loc[r.l2])
            if r.tm is None or not (-1e-9 <= r.tm <= 1 + 1e-9) or \
                    geom.dist(geom.point_at(map_seg[0], map_seg[1], min(1.0, max(0.0, r.tm))), r.pm) > ctx.tol_pos:
                vs.append(V("C02/geometry/map-point-off-edge", where + " ti=%r pi=%r" % (r.tm, r.pm), out))
        d_pts = geom.dist(r.pm, r.po)
        if abs(d_pts - e.dist_obs) > ctx.tol_dist:
            vs.append(V("C02/geometry/dist_obs-vs-reported-points", where + " dist_obs=%r points=%r" % (e.dist_obs, d_pts), out))
        # true minimum distance
        if map_seg is None and po_true_seg is None:
            d_true = geom.dist(r.pm, o1)
        elif map_seg is None:
            d_true = geom.project(r.pm, po_true_seg[0], po_true_seg[1])[0]
        elif po_true_seg is None:
            d_true = geom.project(o1, map_seg[0], map_seg[1])[0]
        else:
            if not ctx.latlon and _near_parallel(map_seg[0], map_seg[1], po_true_seg[0], po_true_seg[1]):
                d_true = None
                ctx.fragile += 1
            else:
                d_true = geom.segseg(map_seg[0], map_seg[1], po_true_seg[0], po_true_seg[1])
        if d_true is not None and abs(d_true - e.dist_obs) > ctx.tol_dist + 1e-9 * abs(d_true):
            kind = "emitting" if e.obs_ne == 0 else "non-emitting"
            vs.append(V("C02/geometry/dist_obs-not-minimum/" + kind,
                        where + " dist_obs=%r true=%r" % (e.dist_obs, d_true), out))
        # ---- probability
        if i == 0:
            model.score_first(r)
            if e.obs != 0 or e.obs_ne != 0:
                vs.append(V("C02/first-entry-not-at-start", where, out))
        else:
            model.score_next(recs[i - 2] if i >= 2 else None, recs[i - 1], r)
        recs.append(r)
        if not close(r.lp, e.logprob, 1e-9, 1e-9):
            kind = "emitting" if e.obs_ne == 0 else "non-emitting"
            cls = "C02/logprob/%s/%s" % (model.family, kind)
            # Root-cause attribution for the listed finding D14 (stale derived entry), from the HISTORY of
            # the lattice that the simulator recorded after every operation (LatticeTracker): the
            # predecessor p on the path was created or replaced (probability / predecessor changed) in a
            # LATER operation than the one in which this entry last changed, i.e. this entry was derived
            # from an earlier version of p and has not been (successfully) derived again; and when p last
            # changed it was properly scheduled (delayed >= expand_now then), so that the missing
            # re-derivation is the documented consequence of in-place replacement (re-postponed by
            # pruning, re-derivation rejected as worse, or forbidden by the visited-node rule) and not an
            # entry that was updated without ever being expanded again.
            tr = getattr(ctx, "tracker", None)
            if tr is not None and sess.matcher.expand_now > 0 and i >= 1:
                te, tp = tr.h.get(e.key), tr.h.get(lb[i - 1].key)
                if te is not None and tp is not None and tp[1] > te[1] and tp[2]:
                    cls = "C02/logprob/stale-after-expansion"
            vs.append(V(cls, where + " reported=%r model=%r" % (e.logprob, r.lp), out))
            return vs
        if r.length != e.length:
            vs.append(V("C02/length", where + " reported=%r model=%r" % (e.length, r.length), out))
            return vs
        if model.family == "distance" and i > 0:
            if not close(r.d_o, e.d_o, 1e-9, ctx.tol_dist) or not close(r.d_s, e.d_s, 1e-9, ctx.tol_dist):
                vs.append(V("C02/distance-progress", where + " d_o=%r/%r d_s=%r/%r" % (e.d_o, r.d_o, e.d_s, r.d_s), out))
                return vs
        if e.obs_ne != 0:
            ctx.probe("c02_ne_entry")
    ctx.probe("c02_paths")
    return vs


# ----------------------------------------------------------------------------- C03
def ideal_start(ctx, trace=None):
    """(admissible start states, fragile?) by full scan with the reference model."""
    model, store, geom = ctx.model, ctx.store, ctx.geom
    o = _xy((trace or ctx.trace)[0])
    eps = 1e-7 * (1 + ctx.maxabs) if not ctx.latlon else 0.3
    adm = []
    fragile = False
    if model.only_edges:
        cands = [((a, b), geom.project(o, store.loc[a], store.loc[b])[0]) for a, b in store.edges()]
    else:
        cands = [(a, geom.dist(o, p)) for a, p in store.loc.items()]
    for st, d in cands:
        r = Rec(None, None, None, 0.0, None, None, False, d)
        model.score_first(r)
        for thr in (model.max_dist_init, model.max_dist):
            if thr != float("inf") and abs(d - thr) <= eps:
                fragile = True
        if model.min_lpn != -float("inf") and abs(r.lp - model.min_lpn) <= 1e-7 * (1 + abs(model.min_lpn)) + \
                (0.0 if not ctx.latlon else abs(model.emission(d + 0.3, False) - r.lp)):
            fragile = True
        if d < model.max_dist_init and not model.stopped_first(r):
            adm.append(st)
    return adm, fragile


def observed_start(ctx, sess):
    """Admissible start states according to the answer the map actually gave."""
    sq = sess.simmap.start_query
    if sq is None:
        return None
    model = ctx.model
    adm = []
    for row in sq[3]:
        d = row[0]
        r = Rec(None, None, None, 0.0, None, None, False, d)
        model.score_first(r)
        if model.stopped_first(r):
            continue
        if sq[0] == "edges":
            if row[1] != row[3]:
                adm.append((row[1], row[3]))
        else:
            adm.append(row[1])
    return adm


def d6_signature(ctx, sess, missing):
    """Are all start edges that the map failed to return explained by the in-memory start-node
    box prefilter (known finding D6)?"""
    if not ctx.inmem or not ctx.model.only_edges:
        return False
    sq = sess.simmap.start_query
    if sq is None or sq[2] is None or sq[2] == float("inf"):
        return False
    loc, radius = sq[1], sq[2]
    # the finding is defined by the map's own query box
    lat_b, lon_l, lat_t, lon_r = sess.simmap.box_around_point((loc[0], loc[1]), radius)
    for a, b in missing:
        y, x = ctx.store.loc[a]
        if lat_b <= y <= lat_t and lon_l <= x <= lon_r:
            return False
    return True


def check_c03(ctx, sess, out):
    vs = []
    if out.ret is None:
        return vs
    states, idx = out.ret
    m = sess.matcher
    lb = m.lattice_best or []
    k = len(m.path)
    unique = bool(out.op.get("unique", False))
    if not states:
        # ([], 0) exactly when no admissible start candidate
        if states is None or idx != 0 or lb:
            vs.append(V("C03/empty-result-shape", "ret=%r len(lattice_best)=%d" % ((states, idx), len(lb)), out))
            return vs
        if out.kind in EXPANDING or sess.jumped:
            return vs
        adm, fragile = ideal_start(ctx, sess.cur_trace)
        if fragile:
            ctx.fragile += 1
            return vs
        ctx.probe("c03_empty_start")
        if adm:
            obs_adm = observed_start(ctx, sess)
            if obs_adm is not None and not obs_adm and d6_signature(ctx, sess, adm):
                vs.append(V("C03/start-set-incomplete/inmem-prefilter", "admissible=%r" % (adm[:4],), out))
            else:
                vs.append(V("C03/empty-result-but-admissible-start", "admissible=%r" % (adm[:4],), out))
        return vs
    # alignment of the best path
    if lb[0].obs != 0 or lb[0].obs_ne != 0:
        vs.append(V("C03/path-does-not-start-at-first-observation", "first=(%d,%d)" % (lb[0].obs, lb[0].obs_ne), out))
        return vs
    for a, b in zip(lb, lb[1:]):
        ok = (b.obs == a.obs and b.obs_ne == a.obs_ne + 1) or (b.obs == a.obs + 1 and b.obs_ne == 0)
        if not ok:
            vs.append(V("C03/path-order", "(%d,%d)->(%d,%d)" % (a.obs, a.obs_ne, b.obs, b.obs_ne), out))
            return vs
    emitting = [e.obs for e in lb if e.obs_ne == 0]
    if emitting != list(range(0, idx + 1)):
        vs.append(V("C03/emitting-states-vs-index", "emitting obs=%r idx=%r" % (emitting, idx), out))
        return vs
    keys = [e.shortkey for e in lb]
    if unique:
        exp = []
        for s in keys:
            if not exp or exp[-1] != s:
                exp.append(s)
    else:
        exp = keys
    if list(states) != exp:
        vs.append(V("C03/states-vs-path", "states=%r path=%r unique=%r" % (states, keys, unique), out))
        return vs
    if m.node_path is not states and list(m.path_pred) != list(states):
        vs.append(V("C03/path_pred-vs-return", "", out))
    if idx > k - 1:
        vs.append(V("C03/index-beyond-trace", "idx=%r k=%r" % (idx, k), out))
        return vs
    # idx == k-1 exactly when the whole trace was matched
    if idx < k - 1:
        nxt = [e for e in m.lattice[idx + 1].values(0) if not e.stop] if (idx + 1) in m.lattice else []
        if nxt:
            vs.append(V("C03/index-too-small", "idx=%d but column %d has %d live entries" % (idx, idx + 1, len(nxt)), out))
        ctx.probe("c03_early_stop")
        if idx == 0:
            ctx.probe("c03_early_stop_at_0")
        if idx == k - 2:
            ctx.probe("c03_early_stop_at_n-2")
    if lb[-1].obs_ne != 0:
        ctx.probe("c03_trailing_ne")
        if idx == k - 1:
            vs.append(V("C03/trailing-non-emitting-after-last-observation", "", out))
    return vs


# ----------------------------------------------------------------------------- C04
def legal_move(ctx, a, b):
    st = ctx.store
    if a == b:
        return True
    ta, tb = isinstance(a, tuple), isinstance(b, tuple)
    if ta and tb:
        if b[0] == a[1] and st.has_edge(b[0], b[1]):
            return True
        if b in st.linked.get(a, ()):  # linked parallel edge
            return True
        return False
    if not ta and not tb:
        return st.has_edge(a, b)
    if not ta and tb:
        return b[0] == a and st.has_edge(b[0], b[1])
    return a[1] == b  # edge -> its end node


def check_c04(ctx, sess, out):
    vs = []
    if out.ret is None or sess.jumped:
        return vs
    m = sess.matcher
    lb = m.lattice_best or []
    st = ctx.store
    keys = [e.shortkey for e in lb]
    for i, s in enumerate(keys):
        if isinstance(s, tuple):
            if not (st.has_node(s[0]) and st.has_node(s[1]) and st.has_edge(s[0], s[1])):
                vs.append(V("C04/state-not-in-map/edge", "%r" % (s,), out))
                return vs
        elif not st.has_node(s):
            vs.append(V("C04/state-not-in-map/node", "%r" % (s,), out))
            return vs
    for i, (a, b) in enumerate(zip(keys, keys[1:])):
        if not legal_move(ctx, a, b):
            kind = "%s-%s" % ("edge" if isinstance(a, tuple) else "node", "edge" if isinstance(b, tuple) else "node")
            ne = "ne" if lb[i + 1].obs_ne else "e"
            vs.append(V("C04/illegal-move/%s/%s" % (kind, ne), "%r -> %r at %d" % (a, b, i), out))
            return vs
        if a != b and isinstance(a, tuple) and isinstance(b, tuple) and b == (a[1], a[0]):
            ctx.probe("c04_uturn")
        if isinstance(a, tuple) and isinstance(b, tuple) and a != b and b[0] != a[1]:
            ctx.probe("c04_linked_move")
    if not st.linked and out.ret[0]:
        try:
            nodes = m.path_pred_onlynodes
        except Exception as exc:
            vs.append(V("C04/onlynodes-raises", "%s: %s" % (type(exc).__name__, exc), out))
            return vs
        for a, b in zip(nodes, nodes[1:]):
            if a == b:
                vs.append(V("C04/onlynodes-repeat", "%r" % (nodes,), out))
                return vs
            if not st.has_edge(a, b):
                vs.append(V("C04/onlynodes-not-adjacent", "%r -> %r in %r" % (a, b, nodes), out))
                return vs
        ctx.probe("c04_onlynodes")
    return vs


# ----------------------------------------------------------------------------- C05
def check_c05(ctx, sess, out):
    vs = []
    m = sess.matcher
    lb = m.lattice_best or []
    model, geom, trace, store = ctx.model, ctx.geom, sess.cur_trace, ctx.store
    for i, e in enumerate(lb):
        where = "entry %d (%r obs=%d ne=%d)" % (i, e.shortkey, e.obs, e.obs_ne)
        if e.dist_obs > model.max_dist:
            vs.append(V("C05/max_dist", where + " dist=%r max=%r" % (e.dist_obs, model.max_dist), out))
        if i == 0 and e.dist_obs > model.max_dist_init:
            vs.append(V("C05/max_dist_init", where + " dist=%r max=%r" % (e.dist_obs, model.max_dist_init), out))
        if model.min_lpn != -float("inf"):
            lpn = e.logprob / e.length
            if lpn < model.min_lpn and not close(lpn, model.min_lpn, 1e-12, 0):
                vs.append(V("C05/min_prob_norm", where + " lp/len=%r min=%r" % (lpn, model.min_lpn), out))
        if e.obs_ne == 0 and e.edge_m.l2 is not None:
            a, b = e.edge_m.l1, e.edge_m.l2
            if a not in store.loc or b not in store.loc:
                continue
            o = _xy(trace[e.obs])
            d_true, q_true, t_true = geom.project(o, store.loc[a], store.loc[b])
            pi = _xy(e.edge_m.pi)
            # nearest point: compare by distance to the observation (robust for degenerate edges) and position
            if abs(geom.dist(o, pi) - d_true) > ctx.tol_dist + 1e-9 * d_true:
                vs.append(V("C05/position-not-nearest", where + " pi=%r nearest=%r" % (pi, q_true), out))
            elif store.loc[a] != store.loc[b] and geom.dist(pi, q_true) > ctx.tol_pos + _flat_tol(ctx, o, store.loc[a], store.loc[b]):
                vs.append(V("C05/position-not-nearest", where + " pi=%r nearest=%r" % (pi, q_true), out))
            if abs(e.dist_obs - d_true) > ctx.tol_dist + 1e-9 * d_true:
                vs.append(V("C05/distance-not-true", where + " dist_obs=%r true=%r" % (e.dist_obs, d_true), out))
            ti = e.edge_m.ti
            if ti is None or not (-1e-9 <= ti <= 1 + 1e-9):
                vs.append(V("C05/relative-position-range", where + " ti=%r" % (ti,), out))
            elif store.loc[a] != store.loc[b]:
                seglen = geom.dist(store.loc[a], store.loc[b])
                if abs(ti - t_true) * seglen > ctx.tol_pos + _flat_tol(ctx, o, store.loc[a], store.loc[b]):
                    vs.append(V("C05/relative-position", where + " ti=%r true=%r" % (ti, t_true), out))
            ctx.probe("c05_edge_positions")
        if i > 0 and e.dist_obs > 0.8 * model.max_dist:
            ctx.probe("c05_near_max_dist")
    return vs


def _flat_tol(ctx, o, s1, s2):
    """Extra position tolerance: the position of the nearest point is ill-conditioned only through
    rounding of the dot product, which scales with the distance of the observation."""
    return 1e-12 * (ctx.geom.dist(o, s1) + ctx.geom.dist(s1, s2))


# ----------------------------------------------------------------------------- C09
def check_c09(ctx, sess, out):
    vs = []
    m = sess.matcher
    lat = m.lattice
    if lat is None:
        return vs
    n_entries = 0
    repost = 0
    for ci, col in lat.items():
        if col.obs_idx != ci:
            vs.append(V("C09/column-index", "column filed at %r claims %r" % (ci, col.obs_idx), out))
        for li, layer in enumerate(col.o):
            for key, e in layer.items():
                n_entries += 1
                where = "entry %r in column %r layer %r" % (e.key, ci, li)
                if e.obs != ci or e.obs_ne != li:
                    vs.append(V("C09/filed-under-wrong-position", where + " claims (%r,%r)" % (e.obs, e.obs_ne), out))
                    continue
                if key != e.key:
                    vs.append(V("C09/filed-under-wrong-key", where + " key=%r" % (key,), out))
                    continue
                if not (e.logprob <= 0.0) or e.logprob != e.logprob:
                    vs.append(V("C09/probability-range", where + " logprob=%r" % (e.logprob,), out))
                first = (ci == 0 and li == 0)
                if first:
                    if e.prev:
                        vs.append(V("C09/start-entry-has-predecessor", where, out))
                    if e.length != 1:
                        vs.append(V("C09/length", where + " length=%r (start)" % (e.length,), out))
                    continue
                if not e.prev:
                    vs.append(V("C09/no-predecessor", where, out))
                    continue
                for p in e.prev:
                    if li > 0:
                        pc, pl = ci, li - 1
                    else:
                        pc, pl = ci - 1, None
                    pcol = lat.get(pc)
                    found = False
                    if pcol is not None:
                        layers = [pl] if pl is not None else range(len(pcol.o))
                        for l in layers:
                            if l < len(pcol.o) and pcol.o[l].get(p.key) is p:
                                found = True
                    if not found:
                        vs.append(V("C09/predecessor-not-in-preceding-layer",
                                    where + " pred=%r(%r,%r)" % (p.key, p.obs, p.obs_ne), out))
                        continue
                    if e.logprob > p.logprob and not close(e.logprob, p.logprob, 1e-12, 1e-12):
                        vs.append(V("C09/more-probable-than-predecessor",
                                    where + " %r > %r" % (e.logprob, p.logprob), out))
                    exp_len = p.length + (1 if li == 0 else 0)
                    if e.length != exp_len:
                        vs.append(V("C09/length", where + " length=%r pred.length=%r" % (e.length, p.length), out))
                    if not e.stop and p.stop:
                        vs.append(V("C09/live-with-stopped-predecessor", where, out))
                    if not e.stop and e.delayed <= m.expand_now and p.delayed > m.expand_now:
                        repost += 1
    ctx.probe("c09_entries", n_entries)
    if repost:
        ctx.probe("c09_expanded_child_of_postponed", repost)
    return vs


# ----------------------------------------------------------------------------- C07 (a) structure
def check_c07_structure(ctx, sess, out):
    vs = []
    m = sess.matcher
    W, E = m.max_lattice_width, m.expand_now
    if W is None or out.ret is None or not out.ret[0] or sess.jumped:
        return vs
    idx = out.ret[1]
    for ci in range(0, idx + 1):
        col = m.lattice.get(ci)
        if col is None:
            continue
        layers = [0] if E > 0 else range(len(col.o))
        for li in layers:
            live = [e for e in col.values(li) if not e.stop]
            if not live:
                continue
            expanded = [e for e in live if e.delayed <= E]
            postponed = [e for e in live if e.delayed > E]
            ctx.probe("c07_columns_judged")
            if postponed:
                ctx.probe("c07_columns_pruned")
            where = "column %d layer %d W=%d E=%d live=%d expanded=%d" % (ci, li, W, E, len(live), len(expanded))
            if expanded and postponed:
                lo = min(e.logprob for e in expanded)
                hi = max(e.logprob for e in postponed)
                if hi > lo:
                    vs.append(V("C07/postponed-more-probable-than-expanded", where + " %r > %r" % (hi, lo), out))
                    continue
                if hi == lo:
                    vs.append(V("C07/tie-left-postponed", where + " logprob=%r" % (lo,), out))
                    continue
            if li == 0:
                if len(live) <= W and postponed:
                    vs.append(V("C07/postponed-although-within-width", where, out))
                    continue
                if not expanded and postponed:
                    vs.append(V("C07/nothing-expanded", where, out))
                    continue
            srt = sorted((e.logprob for e in live), reverse=True)
            if len(expanded) > W:
                wth = srt[W - 1]
                extra = [e for e in expanded if e.logprob < wth]
                if extra:
                    vs.append(V("C07/more-than-width-expanded", where, out))
                    continue
                ctx.probe("c07_tie_extension")
            elif li == 0 and len(live) > W and len(expanded) < W:
                vs.append(V("C07/fewer-than-width-expanded", where, out))
    return vs


# ----------------------------------------------------------------------------- R-audit (tie detector)
def same_key_tie(doc, matcher, rel=1e-12):
    """R-audit: is there a lattice entry for which a candidate through one of its recorded losing
    predecessors (`prev_other`) is exactly as probable as the winner?  `BaseMatching.update` keeps the
    candidate that arrived first, so this is the only place where the listing order (arrival order)
    decides between equally probable alternatives.  Used only as a tie detector, never as an oracle."""
    model = Model(doc["cfg"], bool(doc["world"].get("latlon")))
    lat = matcher.lattice or {}
    for col in lat.values():
        for layer in col.o:
            for e in layer.values():
                if e.stop or not e.prev_other:
                    continue
                for p in e.prev_other:
                    if p in e.prev or p.stop:
                        continue
                    try:
                        pr = rec_from_entry(p)
                        pr.lp, pr.lpe, pr.lpne, pr.length = p.logprob, p.logprobe, p.logprobne, p.length
                        pr.d_o, pr.d_s = getattr(p, "d_o", 0.0), getattr(p, "d_s", 0.0)
                        pp = next(iter(p.prev), None)
                        ppr = rec_from_entry(pp) if pp is not None else None
                        er = rec_from_entry(e)
                        model.score_next(ppr, pr, er)
                    except Exception:
                        continue
                    if close(er.lp, e.logprob, rel, rel):
                        return True
    return False
