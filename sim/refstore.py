"""R-store: the road graph as a plain dictionary with brute-force queries (reference model of a
map).  Built from a world document; mutable for World-B build histories."""
import math

from .refgeom import metric


def tup(x):
    if isinstance(x, list):
        return tuple(tup(v) for v in x)
    return x


class RefStore:
    def __init__(self, latlon=False):
        self.latlon = bool(latlon)
        self.geom = metric(self.latlon)
        self.loc = {}      # label -> (y, x)      (insertion ordered)
        self.nbrs = {}     # label -> [labels]    listing order, may contain duplicates / self
        self.linked = {}   # (a,b) -> [(c,d)]

    @classmethod
    def from_world(cls, world):
        s = cls(world.get("latlon"))
        for l, p, nb in world["nodes"]:
            s.loc[l] = (p[0], p[1])
            s.nbrs[l] = list(nb)
        for e, fs in world.get("linked", []):
            s.linked.setdefault(tup(e), []).extend(tup(f) for f in fs)
        return s

    # -- graph
    def has_node(self, a):
        return a in self.loc

    def has_edge(self, a, b):
        return a in self.nbrs and b in self.nbrs[a] and b in self.loc

    def edges(self, selfloops=False):
        seen = set()
        out = []
        for a, nb in self.nbrs.items():
            for b in nb:
                if b in self.loc and (selfloops or a != b) and (a, b) not in seen:
                    seen.add((a, b))
                    out.append((a, b))
        return out

    def out_nodes(self, a, with_self):
        """Neighbour nodes as a backend offers them (in-memory adds the node itself)."""
        res = [b for b in self.nbrs.get(a, []) if b in self.loc]
        if with_self:
            res = res + [a]
        return res

    # -- spatial, by full scan
    def nodes_within(self, p, radius):
        out = []
        for l, q in self.loc.items():
            d = self.geom.dist(p, q)
            out.append((d, l))
        return out

    def edge_dist(self, p, a, b):
        return self.geom.project(p, self.loc[a], self.loc[b])

    def max_abs(self):
        return max((max(abs(p[0]), abs(p[1])) for p in self.loc.values()), default=1.0)
