"""Lane worker: one fresh interpreter with a fixed PYTHONHASHSEED.

  worker.py batch <prop> <seed> <tier> <lane> <nlanes> <count> <out.json> [deadline_s]
  worker.py serve            (JSON lines on stdin: {"prop":..,"doc":..} -> result on stdout)
"""
import faulthandler
import json
import os
import sys
import time
import traceback
import warnings

sys.path.insert(0, os.path.dirname(os.path.dirname(os.path.realpath(__file__))))
warnings.filterwarnings("ignore")

from sim import bootstrap  # noqa: E402
from sim import gen  # noqa: E402
from sim.registry import REG  # noqa: E402


def jsonable(x):
    if isinstance(x, dict):
        return {str(k): jsonable(v) for k, v in x.items()}
    if isinstance(x, (list, tuple)):
        return [jsonable(v) for v in x]
    if isinstance(x, float):
        return x
    if hasattr(x, "item") and not isinstance(x, (str, bytes)):
        try:
            return x.item()
        except Exception:
            return repr(x)
    if isinstance(x, (int, str, bool)) or x is None:
        return x
    return repr(x)


merge_stats = gen.merge_stats


def evaluate(prop, doc):
    _, ev = REG[prop]
    return ev(doc)


def batch(argv):
    prop, seed, tier, lane, nlanes, count, out = argv[:7]
    seed, lane, nlanes, count = int(seed), int(lane), int(nlanes), int(count)
    deadline = time.time() + (float(argv[7]) if len(argv) > 7 else 3600.0)
    hashseed = os.environ.get("PYTHONHASHSEED", "random")
    g, ev = REG[prop]
    import sim.props_a as _pa
    _pa.TIER = tier
    stats, sigs, viols, samples, harness = {}, {}, [], [], []
    observations = {}
    shapes = set()
    digests = {}
    want_digests = os.environ.get("VERIF_DIGESTS") == "1"
    n = 0
    t0 = time.time()
    for i in range(lane, count, nlanes):
        if time.time() > deadline:
            stats["stopped_at_deadline"] = 1
            break
        doc = g(gen.rng_for(seed, prop, i), tier)
        doc["index"] = i
        doc["hashseed"] = hashseed
        try:
            r = ev(doc)
        except Exception as exc:  # a bug in the harness or reference model, never a verdict
            harness.append({"index": i, "error": "%s: %s" % (type(exc).__name__, exc),
                            "trace": traceback.format_exc()[-1500:]})
            continue
        n += 1
        if want_digests:
            import hashlib
            dd = dict(doc)
            dd.pop("hashseed", None)
            digests[i] = [hashlib.sha256(json.dumps(jsonable(dd), sort_keys=True).encode()).hexdigest()[:16],
                          hashlib.sha256(json.dumps(jsonable(r), sort_keys=True).encode()).hexdigest()[:16]]
        merge_stats(stats, r["stats"])
        if r.get("shape"):
            shapes.add(r["shape"])
        if r["nontrivial"]:
            sigs[r["sig"]] = sigs.get(r["sig"], 0) + 1
        for v in r["violations"]:
            if len(viols) < 200:
                viols.append({"cls": v["cls"], "detail": v["detail"], "op": v.get("op"), "index": i, "doc": doc})
            stats["violations_total"] = stats.get("violations_total", 0) + 1
        if "observations" in r:
            observations[i] = r["observations"]
        if len(samples) < 2:
            samples.append(doc)
    res = {"prop": prop, "lane": lane, "hashseed": hashseed, "evaluated": n, "stats": stats, "sigs": sigs,
           "violations": viols, "samples": samples, "harness_errors": harness[:20],
           "n_harness_errors": len(harness), "wall_s": time.time() - t0, "repo": bootstrap.REPO,
           "shapes": sorted(shapes)}
    if observations:
        res["observations"] = observations
    if digests:
        res["digests"] = digests
    with open(out + ".tmp", "w") as f:
        json.dump(jsonable(res), f)
    os.replace(out + ".tmp", out)


def serve():
    for line in sys.stdin:
        line = line.strip()
        if not line:
            continue
        req = json.loads(line)
        try:
            r = evaluate(req["prop"], req["doc"])
            resp = {"ok": True, "violations": [{"cls": v["cls"], "detail": v["detail"]} for v in r["violations"]]}
            if "observations" in r:
                resp["observations"] = r["observations"]
        except Exception as exc:
            resp = {"ok": False, "error": "%s: %s" % (type(exc).__name__, exc)}
        sys.stdout.write(json.dumps(jsonable(resp)) + "\n")
        sys.stdout.flush()


if __name__ == "__main__":
    faulthandler.enable()
    if sys.argv[1] == "batch":
        faulthandler.dump_traceback_later(float(os.environ.get("VERIF_LANE_TIMEOUT", "3000")), exit=True)
        batch(sys.argv[2:])
    elif sys.argv[1] == "serve":
        serve()
    else:
        sys.exit("usage")
