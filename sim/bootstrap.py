"""Make sure the code under test is the working tree in $VERIF_REPO (default /repo).

/venv contains a non-editable installed copy of leuvenmapmatching; without this the
checks would silently test that copy.  Exit code 2 (HARNESS-ERROR) if the wrong copy
is imported.
"""
import os
import sys

REPO = os.path.realpath(os.environ.get("VERIF_REPO", "/repo"))
VERIF = os.path.dirname(os.path.dirname(os.path.realpath(__file__)))


def harness_error(msg):
    sys.stdout.write("HARNESS-ERROR %s\n" % msg)
    sys.stdout.flush()
    os._exit(2)


def activate():
    # drop stale copies (site-packages copy wins otherwise when cwd != /repo)
    sys.path[:] = [p for p in sys.path if os.path.realpath(p or ".") != REPO]
    sys.path.insert(0, REPO)
    if VERIF not in sys.path:
        sys.path.insert(1, VERIF)
    for name in list(sys.modules):
        if name == "leuvenmapmatching" or name.startswith("leuvenmapmatching."):
            f = getattr(sys.modules[name], "__file__", "") or ""
            if not os.path.realpath(f).startswith(REPO + os.sep):
                del sys.modules[name]
    import leuvenmapmatching
    f = os.path.realpath(leuvenmapmatching.__file__)
    if not f.startswith(REPO + os.sep):
        harness_error("imported leuvenmapmatching from %s, expected it under %s" % (f, REPO))
    return REPO


activate()
