"""World B: a map store driven through build operations, queries, restarts and crashes
(C11, C12, C18).  Real InMemMap / SqliteMap on real files, compared with the RefStore model."""
import math
import os
import random
import shutil
import tempfile

from . import bootstrap  # noqa: F401
from . import gen
from .refgeom import metric
from .battery import _norm_nbrs, _norm_edges, battery, battery_json
from .refstore import RefStore
from .twins import clone, compare, num_equal
from .world_a import (SCRATCH_ROOT, SimClock, environment, run_session, InMemMap, SqliteMap)


def V(cls, detail, i):
    return {"cls": cls, "detail": detail, "op": i, "opkind": "B"}


# ----------------------------------------------------------------------------- generation
def gen_points(rng, n, mag, latlon):
    """Node coordinates for a store world."""
    if latlon:
        lat0, lon0 = rng.uniform(-58, 58), rng.uniform(-170, 170)
        span = rng.choice([0.001, 0.003, 0.01])     # ~100 m .. 1 km
        if rng.random() < 0.06:
            lon0 = rng.choice([179.9999, -179.9999])      # nodes on both sides of the antimeridian

            def wrap(v):
                return v - 360.0 if v > 180.0 else (v + 360.0 if v <= -180.0 else v)
            return [(round(lat0 + rng.uniform(-span, span), 7), round(wrap(lon0 + rng.uniform(-span, span)), 7)) for _ in range(n)]
        return [(round(lat0 + rng.uniform(-span, span), 7), round(lon0 + rng.uniform(-span, span), 7)) for _ in range(n)]
    if mag == "big":
        oy, ox = float(rng.randrange(10 ** 6, 10 ** 7)), float(rng.randrange(10 ** 6, 2 * 10 ** 7))
        sc = rng.choice([1.0, 5.0, 50.0])
        return [(oy + round(rng.uniform(0, 10) * sc, 3), ox + round(rng.uniform(0, 10) * sc, 3)) for _ in range(n)]
    if rng.random() < 0.3:
        return [(float(rng.randint(0, 5)), float(rng.randint(0, 5))) for _ in range(n)]
    return [(round(rng.uniform(0, 10), 3), round(rng.uniform(0, 10), 3)) for _ in range(n)]


def gen_build_history(rng, latlon, mag, sqlite_features=True, queries=("nodes", "edges"), restarts=False,
                      n=None, safe_commit_p=0.8, bulk=True, town_p=0.03):
    # SIZE as a swarm dimension: 3 % of the build histories load a town (130-320 nodes) through the bulk calls, so that
    # batch sizes, statement limits and windows which a handful of rows never reach are met (side stream: the main
    # PRNG is not consumed by the decision)
    hs = random.Random(gen.derive("town", repr(rng.getstate())))
    town = n is None and bulk and hs.random() < town_p
    if town:
        n = hs.randint(130, 320)
    n = n or rng.randint(2, 9)
    pts = gen_points(rng, n, mag, latlon)
    if n >= 3 and rng.random() < 0.15:
        # two nodes with different labels at the same place (a zero-length road between them)
        i, j = rng.sample(range(n), 2)
        pts[j] = pts[i]
    # dedupe coincident nodes most of the time
    labels = rng.sample(range(0, 60 if n <= 40 else 20 * n), n) if rng.random() < 0.7 else rng.sample(range(1, 10 ** 9), n)
    ops = []
    edges = set()
    und = []
    for i in range(1, n):
        j = rng.randrange(i)
        und.append((i, j))
    for _ in range(rng.randint(0, n)):
        a, b = rng.sample(range(n), 2)
        und.append((a, b))
    cand_edges = []
    for a, b in und:
        if rng.random() < 0.75:
            cand_edges += [(a, b), (b, a)]
        else:
            cand_edges.append((a, b))
    cand_edges = list(dict.fromkeys(cand_edges))
    # nodes
    todo = list(range(n))
    if town or (sqlite_features and rng.random() < 0.35):
        k = rng.randint(1, n) if not town else rng.choice([n, n, rng.randint(129, n), 128, 129, 256, 257])
        k = min(k, n)
        ops.append({"op": "add_nodes", "nodes": [[labels[i], list(pts[i])] for i in todo[:k]]})
        todo = todo[k:]
    for i in todo:
        op = {"op": "add_node", "label": labels[i], "loc": list(pts[i])}
        if sqlite_features:
            if rng.random() < 0.3:
                op["no_commit"] = True
            if rng.random() < 0.2:
                op["no_index"] = True
        ops.append(op)
    if sqlite_features and rng.random() < 0.15:
        i = rng.randrange(n)
        ops.append({"op": "add_node", "label": labels[i], "loc": list(pts[i]), "ignore_doubles": True})
    if any(o.get("no_index") for o in ops) and rng.random() < 0.9:
        ops.append({"op": "reindex_nodes"})
    # edges
    rest = list(cand_edges)
    if (town or (sqlite_features and rng.random() < 0.35)) and rest:
        k = rng.randint(1, len(rest)) if not town else max(1, len(rest) - rng.choice([0, 0, 1, 3]))
        rows = [[labels[a], labels[b]] for a, b in rest[:k]]
        if rng.random() < 0.3:
            rows = [r + [rng.randint(1, 9), rng.randint(0, 3)] for r in rows]      # (a, b, path, pathnum)
        ops.append({"op": "add_edges", "edges": rows, "no_index": sqlite_features and rng.random() < 0.3})
        rest = rest[k:]
    for a, b in rest:
        op = {"op": "add_edge", "a": labels[a], "b": labels[b]}
        if sqlite_features:
            if rng.random() < 0.3:
                op["no_commit"] = True
            if rng.random() < 0.2:
                op["no_index"] = True
            if rng.random() < 0.2:
                op["with_loc"] = True
            if rng.random() < 0.15:
                op["attrs"] = {"speed": rng.choice([8.3, 13.9, 33.3]), "edge_type": rng.randint(0, 5),
                               "path": rng.randint(1, 9), "pathnum": rng.randint(0, 3)}
        ops.append(op)
    if sqlite_features and rng.random() < 0.1 and cand_edges:
        a, b = rng.choice(cand_edges)
        ops.append({"op": "add_edge", "a": labels[a], "b": labels[b]})   # duplicate, ignored
    if sqlite_features and rng.random() < 0.25:
        # (not for C12, where both backends must hold the same content)
        # the in-memory map may list a node as its own neighbour (its test maps do); placed somewhere among
        # the road insertions so that it can precede other neighbours of the node
        i = rng.randrange(n)
        first_edge = next((k for k, o in enumerate(ops) if o["op"] in ("add_edge", "add_edges")), len(ops))
        ops.insert(rng.randint(first_edge, len(ops)), {"op": "self_nbr", "a": labels[i]})
    if rng.random() < 0.3:
        # a loader that declares a node again after its roads were added (same label, same location)
        i = rng.randrange(n)
        ops.append({"op": "add_node", "label": labels[i], "loc": list(pts[i]), "ignore_doubles": True})
    if any(o.get("no_index") for o in ops if o["op"] in ("add_edge", "add_edges")) and rng.random() < 0.9:
        ops.append({"op": "reindex_edges"})
    ri = [k for k, o in enumerate(ops) if o["op"] == "reindex_nodes"]
    if ri and rng.random() < 0.35:
        # the deferred node index is built only after the roads (and their index): the two re-index calls are
        # independent of each other, whatever their order the map must end up completely indexed
        ops.append(ops.pop(ri[0]))
        if any(o.get("no_index") for o in ops if o["op"] in ("add_edge", "add_edges")) and ops[-2]["op"] != "reindex_edges" \
                and rng.random() < 0.5:
            ops.insert(len(ops) - 1, {"op": "reindex_edges"})
    if sqlite_features and rng.random() < safe_commit_p:
        ops.append({"op": "commit"})
    if sqlite_features and rng.random() < 0.15:
        ops.append({"op": "connect_parallelroads", "dist": rng.choice([0.5, 2.0, 10.0])})
    if sqlite_features and rng.random() < 0.12:
        # a rejected call: a node declared again, at another place, without ignore_doubles (SqliteMap raises)
        i = rng.randrange(n)
        q = pts[(i + 1) % n]
        op = {"op": "add_node", "label": labels[i], "loc": [q[0], q[1]] if (q[0], q[1]) != tuple(pts[i]) else [q[0] + (1e-4 if latlon else 0.25), q[1]],
              "expect_refused": True}
        if rng.random() < 0.3:
            op["no_commit"] = True
        if rng.random() < 0.2:
            op["no_index"] = True
        first_edge = next((k for k, o in enumerate(ops) if o["op"] in ("add_edge", "add_edges")), len(ops))
        ops.insert(rng.randint(min(first_edge, len(ops)), len(ops)), op)
    if rng.random() < 0.15:
        # a rejected call: a road to a node that does not exist yet (the in-memory map refuses it with an exception and
        # must be left as it was); the node is declared later and gets roads of its own, but never this one
        first_edge = next((k for k, o in enumerate(ops) if o["op"] in ("add_edge", "add_edges")), len(ops))
        late = max(labels) + 1 + rng.randrange(5)
        src = rng.randrange(n)
        q = rng.choice(pts)
        lp = (round(q[0] + (1e-4 if latlon else 0.5) * rng.uniform(-1, 1), 7), round(q[1] + (1e-4 if latlon else 0.5) * rng.uniform(-1, 1), 7))
        pos = rng.randint(first_edge, len(ops))
        ops.insert(pos, {"op": "reject_edge", "a": labels[src], "b": late})
        pos = rng.randint(pos + 1, len(ops))
        ops.insert(pos, {"op": "add_node", "label": late, "loc": list(lp)})
        for j in rng.sample(range(n), min(n, rng.randint(1, 2))):
            ops.insert(pos + 1, {"op": "add_edge", "a": late, "b": labels[j]})
            if j != src and rng.random() < 0.5:
                ops.insert(pos + 1, {"op": "add_edge", "a": labels[j], "b": late})
        labels = labels + [late]
        pts = pts + [lp]
    # interleave queries / restarts at random positions after at least one node exists
    extra = []
    nq = rng.randint(2, 6)
    coords = pts
    for _ in range(nq):
        kind = rng.choice(queries)
        extra.append(gen_query(rng, kind, coords, latlon, mag))
    if restarts:
        for _ in range(rng.randint(1, 3)):
            extra.append({"op": rng.choice(["reopen", "reopen", "crash"])})
    for q in extra:
        pos = rng.randint(max(1, len(ops) // 2), len(ops)) if rng.random() < 0.6 else len(ops)
        ops.insert(pos, q)
    if restarts:
        ops.append({"op": "reopen"})
    return ops, labels, pts


def gen_query(rng, kind, coords, latlon, mag):
    p = rng.choice(coords)
    q = rng.choice(coords)
    t = rng.random()
    if latlon:
        # a point near the segment p-q, offsets in metres
        off = rng.choice([0.0, 3.0, 20.0, 80.0])
        lat = p[0] + t * (q[0] - p[0]) + rng.uniform(-1, 1) * off / 111000.0
        lon = p[1] + t * (q[1] - p[1]) + rng.uniform(-1, 1) * off / (111000.0 * math.cos(math.radians(p[0])))
        loc = [round(lat, 7), round(lon, 7)]
        radius = rng.choice([5.0, 20.0, 60.0, 150.0, 500.0])
    else:
        sc = 1.0
        if mag == "big":
            sc = 5.0
        off = rng.choice([0.0, 0.2, 1.0, 3.0]) * sc
        loc = [round(p[0] + t * (q[0] - p[0]) + rng.uniform(-1, 1) * off, 3),
               round(p[1] + t * (q[1] - p[1]) + rng.uniform(-1, 1) * off, 3)]
        radius = rng.choice([0.3, 0.9, 1.0, 2.5, 6.0, 30.0]) * sc
    return {"op": "q_" + kind, "loc": loc, "max_dist": radius, "max_elmt": rng.choice([None, None, 1, 3])}


def with_clock(rng, d):
    """Half of the store sessions run under a wall clock that steps and jumps (time is only logged)."""
    if rng.random() < 0.5:
        d["clock"] = rng.randrange(1 << 30)
    return d


def gen_world_b(rng, prop):
    latlon = rng.random() < 0.3
    mag = "deg" if latlon else rng.choice(["unit", "unit", "big"])
    return latlon, mag


# ----------------------------------------------------------------------------- reference with transactions
class TxRef:
    """RefStore + what SQLite has committed vs what is pending on the open connection."""

    def __init__(self, latlon):
        self.latlon = latlon
        self.committed = {"nodes": {}, "edges": [], "nidx": set(), "eidx": set(), "links": []}
        self.pending = []      # list of (kind, payload)
        self.record = None     # when a list: every committed state reached is appended (commit points)

    def _apply(self, state, kind, payload):
        if kind == "node":
            l, p = payload
            if l not in state["nodes"]:
                state["nodes"][l] = p
        elif kind == "nidx":
            state["nidx"].add(payload)
        elif kind == "edge":
            if payload not in state["edges"]:
                state["edges"].append(payload)
        elif kind == "eidx":
            state["eidx"].add(payload)
        elif kind == "reindex_nodes":
            state["nidx"] = set(state["nodes"])
        elif kind == "reindex_edges":
            state["eidx"] = set(e for e in state["edges"] if e[0] in state["nodes"] and e[1] in state["nodes"])
        elif kind == "link":
            state["links"].append(payload)

    def write(self, kind, payload):
        self.pending.append((kind, payload))

    def commit(self):
        for k, p in self.pending:
            self._apply(self.committed, k, p)
        self.pending = []
        if self.record is not None:
            import copy
            self.record.append(copy.deepcopy(self.committed))

    def rollback(self):
        self.pending = []

    def view(self, committed_only=False):
        import copy
        st = copy.deepcopy(self.committed)
        if not committed_only:
            for k, p in self.pending:
                self._apply(st, k, p)
        return st

    def store(self, committed_only=False, indexed_only=True):
        st = self.view(committed_only)
        s = RefStore(self.latlon)
        for l, p in st["nodes"].items():
            if not indexed_only or l in st["nidx"]:
                s.loc[l] = tuple(p)
                s.nbrs[l] = []
        for a, b in st["edges"]:
            if a in st["nodes"] and b in st["nodes"]:
                s.nbrs.setdefault(a, [])
                s.nbrs[a].append(b)
        s.eidx = set(st["eidx"])
        s.all_nodes = dict(st["nodes"])
        s.nidx = set(st["nidx"])
        s.all_edges_list = list(st["edges"])
        return s

    def consistent(self, committed_only=False):
        st = self.view(committed_only)
        return st["nidx"] == set(st["nodes"]) and \
            st["eidx"] == set(e for e in st["edges"])


# ----------------------------------------------------------------------------- executor
class StoreSession:
    def __init__(self, doc, use_sqlite=True, use_inmem=False):
        self.doc = doc
        self.latlon = bool(doc["latlon"])
        self.geom = metric(self.latlon)
        self.ref = TxRef(self.latlon)
        self.sq = None
        self.im = None
        self.use_sqlite = use_sqlite
        self.use_inmem = use_inmem
        self.scratch = None
        self.stats = {}
        self.vs = []
        self.gen_no = 0
        self.mutations = 0
        self.im_ref = RefStore(self.latlon)   # what the in-memory map holds (no transactions there)
        self.im_ref.eidx = set()

    def bump(self, k, n=1):
        self.stats[k] = self.stats.get(k, 0) + n

    def open(self):
        self.scratch = tempfile.mkdtemp(prefix="lmm-simb-", dir=SCRATCH_ROOT)
        if self.use_sqlite:
            plant_stale(self.scratch, self.doc, self.bump)
            self.sq = SqliteMap("store", use_latlon=self.latlon, dir=self.scratch)
        if self.use_inmem:
            self.im = InMemMap("store", use_latlon=self.latlon, use_rtree=False, index_edges=False, dir=self.scratch)

    def close(self):
        if self.sq is not None:
            try:
                self.sq.db.close()
            except Exception:
                pass
        if self.scratch:
            shutil.rmtree(self.scratch, ignore_errors=True)

    def apply_checked(self, i, op, prop):
        """Apply a build operation; the reference model expects it to succeed, so an exception raised by
        the real store is a violation (not a harness failure).  Returns False when the session must stop."""
        try:
            self.apply(i, op)
            return True
        except Exception as exc:
            import traceback
            fn = "?"
            for fr in traceback.extract_tb(exc.__traceback__):
                if "leuvenmapmatching" in fr.filename:
                    fn = fr.name
            if fn == "?":
                raise
            self.vs.append(V("%s/operation-raises/%s/%s/%s" % (prop, op["op"], type(exc).__name__, fn), str(exc)[:200], i))
            return False

    # -- build operations on both the real stores and the reference
    def apply(self, i, op):
        k = op["op"]
        sq, im, ref = self.sq, self.im, self.ref
        if k == "add_node":
            l, p = op["label"], tuple(op["loc"])
            exists = l in ref.view()["nodes"]
            if exists and op.get("expect_refused"):
                # a node declared a second time (elsewhere) without ignore_doubles: the SQLite map refuses it with an
                # exception; nodes, index rows and pending writes must be as before
                if sq is not None:
                    try:
                        sq.add_node(l, p, no_index=bool(op.get("no_index")), no_commit=bool(op.get("no_commit")))
                    except Exception:
                        self.bump("fired_rejected_call")
                    else:
                        self.bump("dup_node_accepted_without_exception")
                return
            if sq is not None:
                if exists and not op.get("ignore_doubles"):
                    return
                sq.add_node(l, p, ignore_doubles=bool(op.get("ignore_doubles")), no_index=bool(op.get("no_index")),
                            no_commit=bool(op.get("no_commit")))
            if im is not None:
                im.add_node(l, p)
                if l not in self.im_ref.loc:
                    self.im_ref.loc[l] = p
                    self.im_ref.nbrs[l] = []
            if not exists:
                ref.write("node", (l, p))
                if not op.get("no_index"):
                    ref.write("nidx", l)
                if not op.get("no_commit"):
                    ref.commit()
                self.mutations += 1
        elif k == "add_nodes":
            nodes = [(l, tuple(p)) for l, p in op["nodes"]]
            if len(nodes) > 128:
                self.bump("probe_bulk_load_over_128_rows")
            if sq is not None:
                sq.add_nodes(nodes)
            for l, p in nodes:
                if im is not None:
                    im.add_node(l, p)
                    if l not in self.im_ref.loc:
                        self.im_ref.loc[l] = p
                        self.im_ref.nbrs[l] = []
                ref.write("node", (l, p))
                ref.write("nidx", l)
            ref.commit()
            self.mutations += 1
        elif k == "add_edge":
            a, b = op["a"], op["b"]
            nodes = ref.view()["nodes"]
            if a not in nodes or b not in nodes:
                return
            if sq is not None:
                kw = {}
                if op.get("with_loc"):
                    kw = {"loc_a": tuple(nodes[a]), "loc_b": tuple(nodes[b])}
                kw.update(op.get("attrs") or {})
                sq.add_edge(a, b, no_index=bool(op.get("no_index")), no_commit=bool(op.get("no_commit")), **kw)
            if im is not None and a in self.im_ref.loc and b in self.im_ref.loc:
                im.add_edge(a, b)
                if b not in self.im_ref.nbrs[a]:
                    self.im_ref.nbrs[a].append(b)
            ref.write("edge", (a, b))
            if not op.get("no_index"):
                ref.write("eidx", (a, b))
            if not op.get("no_commit"):
                ref.commit()
            self.mutations += 1
        elif k == "reject_edge":
            a, b = op["a"], op["b"]
            if im is not None and a in self.im_ref.loc and b not in self.im_ref.loc:
                try:
                    im.add_edge(a, b)
                except Exception:
                    self.bump("fired_rejected_call")      # refused: nothing of it may remain
                else:
                    self.im_ref.nbrs[a].append(b)             # accepted as a dangling entry (like graph=...)
        elif k == "self_nbr":
            a = op["a"]
            if im is not None and a in self.im_ref.loc and a not in self.im_ref.nbrs[a]:
                im.add_edge(a, a)
                self.im_ref.nbrs[a].append(a)
        elif k == "add_edges":
            have = set(ref.view()["edges"])
            rows = [tuple(r) for r in op["edges"] if (r[0], r[1]) not in have]
            rows = list({(r[0], r[1]): r for r in rows}.values())
            edges = [(r[0], r[1]) for r in rows]
            if not edges:
                return
            if sq is not None:
                sq.add_edges(rows, no_index=bool(op.get("no_index")))
            for a, b in edges:
                if im is not None and a in self.im_ref.loc and b in self.im_ref.loc:
                    im.add_edge(a, b)
                    if b not in self.im_ref.nbrs[a]:
                        self.im_ref.nbrs[a].append(b)
                ref.write("edge", (a, b))
            ref.commit()
            if not op.get("no_index"):
                ref.write("reindex_edges", None)
                ref.commit()
            self.mutations += 1
        elif k == "reindex_nodes":
            if sq is not None:
                sq.reindex_nodes()
            ref.write("reindex_nodes", None)
            ref.commit()
        elif k == "reindex_edges":
            if sq is not None:
                sq.reindex_edges()
            ref.write("reindex_edges", None)
            ref.commit()
        elif k == "commit":
            if sq is not None:
                sq.db.commit()
            ref.commit()
        elif k == "connect_parallelroads":
            if sq is not None and ref.consistent():
                sq.connect_parallelroads(dist=op["dist"])
                ref.commit()
                self.bump("probe_connect_parallelroads")
        else:
            raise ValueError(k)


def _store_shape(sess):
    """Digest of the final store state of the reference (content, index and transaction state)."""
    import zlib
    st = sess.ref.view()
    return zlib.crc32(repr((len(st["nodes"]), len(st["edges"]), len(st["nidx"]), len(st["eidx"]), len(sess.ref.pending),
                            sess.latlon, sess.stats.get("fired_restart", 0), sess.stats.get("fired_crash", 0),
                            sess.stats.get("fired_crash_mid_operation", 0))).encode())


def repo_function(exc):
    """Name of the innermost repository function in the traceback of exc (None if the exception did not
    pass through the code under test, i.e. it is a bug of the harness itself)."""
    import traceback
    fn = None
    for fr in traceback.extract_tb(exc.__traceback__):
        if "leuvenmapmatching" in fr.filename:
            fn = fr.name
    return fn


def judged(prop):
    """Decorator for World-B evaluators: an exception raised by the repository while the simulator builds,
    queries or reopens a store is a violation of the property (the reference model expects an answer), not a
    harness failure."""
    def deco(fn_eval):
        def wrapper(doc):
            try:
                return fn_eval(doc)
            except Exception as exc:
                fn = repo_function(exc)
                if fn is None:
                    raise
                v = V("%s/raises/%s/%s" % (prop, type(exc).__name__, fn), str(exc)[:200], -1)
                return {"violations": [v], "sig": "raised|" + fn, "nontrivial": True, "stats": {"ops": len(doc.get("ops", []))}}
        wrapper.__name__ = fn_eval.__name__
        return wrapper
    return deco


def sorted_rows(rows):
    return sorted(rows, key=repr)


# ----------------------------------------------------------------------------- C11
def tol_for(latlon, mag, kind):
    if latlon:
        return {"ndist": 1e-3, "edist": 0.1, "pos": 0.25}[kind]
    scale = 1e7 if mag == "big" else 10.0
    return 1e-9 + 4e-15 * scale * 64


def check_closeto(sess, i, op, m, backend, store):
    """Compare one spatial query of backend `m` with the full scan of `store`."""
    vs = []
    latlon, mag = sess.latlon, sess.doc["mag"]
    geom = sess.geom
    loc = tuple(op["loc"])
    radius, kmax = op["max_dist"], op["max_elmt"]
    nodes = op["op"] == "q_nodes"
    what = "nodes_closeto" if nodes else "edges_closeto"
    try:
        ans = m.nodes_closeto(loc, max_dist=radius, max_elmt=kmax) if nodes else \
            m.edges_closeto(loc, max_dist=radius, max_elmt=kmax)
    except Exception as exc:
        return [V("C11/%s/%s/raises/%s" % (backend, what, type(exc).__name__), str(exc)[:200], i)]
    ans = list(ans)
    tol_d = tol_for(latlon, mag, "ndist" if nodes else "edist")
    tol_p = tol_for(latlon, mag, "pos")
    # expected
    exp = {}
    if nodes:
        for l, p in store.loc.items():
            exp[l] = (geom.dist(loc, p), p, 0.0)
    else:
        for a, b in store.edges():
            if (a, b) in store.eidx or backend == "inmem":
                d, q, t = geom.project(loc, store.loc[a], store.loc[b])
                exp[(a, b)] = (d, q, t)
    got = {}
    prev_d = -1.0
    for row in ans:
        if nodes:
            d, key, p = row[0], row[1], tuple(row[2])
            ok_shape = key in store.loc and (p[0], p[1]) == store.loc[key]
        else:
            d, key = row[0], (row[1], row[3])
            ok_shape = key in exp and (row[2][0], row[2][1]) == store.loc[key[0]] and (row[4][0], row[4][1]) == store.loc[key[1]]
        if not ok_shape:
            vs.append(V("C11/%s/%s/unknown-element" % (backend, what), "%r" % (row,), i))
            continue
        if key in got:
            vs.append(V("C11/%s/%s/duplicate" % (backend, what), "%r" % (key,), i))
        got[key] = row
        if d < prev_d:
            vs.append(V("C11/%s/%s/not-sorted" % (backend, what), "%r after %r" % (d, prev_d), i))
        prev_d = d
        d_true, q_true, t_true = exp[key]
        if abs(d - d_true) > tol_d + 1e-9 * d_true:
            vs.append(V("C11/%s/%s/wrong-distance" % (backend, what), "%r reported %r true %r" % (key, d, d_true), i))
        if not (d < radius):
            vs.append(V("C11/%s/%s/outside-radius" % (backend, what), "%r d=%r radius=%r" % (key, d, radius), i))
        elif d_true > radius + tol_d:
            vs.append(V("C11/%s/%s/outside-radius" % (backend, what), "%r true d=%r radius=%r" % (key, d_true, radius), i))
        if not nodes:
            pi, ti = row[5], row[6]
            a, b = store.loc[key[0]], store.loc[key[1]]
            if abs(geom.dist(loc, (pi[0], pi[1])) - d_true) > tol_d + 1e-9 * d_true:
                vs.append(V("C11/%s/%s/projection-not-nearest" % (backend, what), "%r pi=%r nearest=%r" % (key, pi, q_true), i))
            elif a != b:
                seglen = geom.dist(a, b)
                on = geom.point_at(a, b, min(1.0, max(0.0, ti)))
                if not (-1e-9 <= ti <= 1 + 1e-9) or geom.dist(on, (pi[0], pi[1])) > tol_p + 1e-9 * seglen:
                    vs.append(V("C11/%s/%s/relative-position" % (backend, what), "%r ti=%r pi=%r" % (key, ti, pi), i))
    inside = sorted((v[0], repr(k), k) for k, v in exp.items() if v[0] < radius - tol_d)
    border = [k for k, v in exp.items() if abs(v[0] - radius) <= tol_d]
    if border:
        sess.bump("fragile")
    def outside_box(edge_list):
        """Known finding D6: every edge of the list starts outside the map's own query box."""
        lat_b, lon_l, lat_t, lon_r = m.box_around_point((loc[0], loc[1]), radius)
        for a, b in edge_list:
            y, x = store.loc[a]
            if lat_b <= y <= lat_t and lon_l <= x <= lon_r:
                return False
        return True
    d6 = "C11/inmem/edges_closeto/missing/start-node-outside-box"
    d19 = "C11/sqlite/edges_closeto/missing/edge-crosses-antimeridian"

    def crosses_antimeridian(edge_list):
        """Known finding D19: every edge of the list runs across longitude +-180 (SqliteMap indexes it with the
        naive min/max of its longitudes, i.e. with the box that goes the long way round)."""
        return latlon and all(abs(store.loc[a][1] - store.loc[b][1]) > 180.0 for a, b in edge_list)

    def explain(edge_list, default):
        if nodes or not edge_list:
            return default
        if backend == "inmem" and outside_box(edge_list):
            return d6
        if backend == "sqlite" and crosses_antimeridian(edge_list):
            return d19
        return default
    if kmax is None:
        missing = [k for _, _, k in inside if k not in got]
        if missing:
            cls = explain(missing, "C11/%s/%s/missing" % (backend, what))
            vs.append(V(cls, "missing %r (radius %r at %r)" % (missing[:4], radius, loc), i))
    else:
        want = min(kmax, len(inside))
        if len(ans) < want and not border:
            missing = [k for _, _, k in inside if k not in got]
            cls = explain(missing, "C11/%s/%s/truncation-too-short" % (backend, what))
            vs.append(V(cls, "got %d want %d" % (len(ans), want), i))
        if len(ans) > kmax:
            vs.append(V("C11/%s/%s/truncation-too-long" % (backend, what), "got %d max %d" % (len(ans), kmax), i))
        if got and len(ans) == want:
            worst = max(exp[k][0] for k in got)
            better = [k for _, _, k in inside if k not in got and exp[k][0] < worst - 2 * tol_d]
            if better:
                cls = explain(better, "C11/%s/%s/truncation-not-nearest" % (backend, what))
                vs.append(V(cls, "nearer elements not returned: %r" % (better[:4],), i))
    if not nodes:
        long_edges = [k for k, v in exp.items() if v[0] < radius and 0.02 < v[2] < 0.98 and
                      geom.dist(loc, store.loc[k[0]]) > radius and geom.dist(loc, store.loc[k[1]]) > radius]
        if long_edges:
            sess.bump("probe_long_edge_both_ends_outside")
    if ans:
        sess.bump("probe_nonempty_answers")
    return vs


def maybe_stale(rng, d, p, kind="sqlite"):
    """Fault 'stale_file': a file of the same name is already there, left by an earlier run over the same labels
    (other coordinates, every road linked to its parallel roads).  Creating the map again under that name starts
    from an empty store; opening a pickle later reads the file that is there then."""
    if rng.random() < p:
        d["stale"] = {"kind": kind, "shift": rng.choice([0.0, 0.001, 1.0])}
    return d


def plant_stale(scratch, doc, bump=None):
    st = doc.get("stale")
    if not st:
        return
    latlon = bool(doc["latlon"])
    sh = st["shift"] * (0.001 if latlon else 1.0)
    nodes, edges = {}, []
    for o in doc["ops"]:
        if o["op"] == "add_node":
            nodes.setdefault(o["label"], tuple(o["loc"]))
        elif o["op"] == "add_nodes":
            for l, q in o["nodes"]:
                nodes.setdefault(l, tuple(q))
    for o in doc["ops"]:
        rows = [[o["a"], o["b"]]] if o["op"] == "add_edge" else (o["edges"] if o["op"] == "add_edges" else [])
        for r in rows:
            if r[0] in nodes and r[1] in nodes and (r[0], r[1]) not in edges:
                edges.append((r[0], r[1]))
    if st["kind"] == "sqlite":
        m = SqliteMap("store", use_latlon=latlon, dir=scratch)
        for l, q in nodes.items():
            m.add_node(l, (q[0] + sh, q[1] + sh))
        for a, b in edges:
            m.add_edge(a, b)
        m.connect_parallelroads(dist=1e9)
        m.db.close()
    else:
        m = InMemMap("store", use_latlon=latlon, use_rtree=False, index_edges=False, dir=scratch)
        keep = sorted(nodes)[: max(1, len(nodes) // 2)]
        for l in keep:
            m.add_node(l, (nodes[l][0] + sh, nodes[l][1] + sh))
        for a, b in edges:
            if a in keep and b in keep:
                m.add_edge(a, b)
        m.dump()
        InMemMap.from_pickle(os.path.join(scratch, "store.pkl"))     # the earlier run also read it once
    if bump:
        bump("fired_stale_file")


def gen_C11(rng, tier):
    latlon, mag = gen_world_b(rng, "C11")
    ops, labels, pts = gen_build_history(rng, latlon, mag, sqlite_features=True, queries=("nodes", "edges", "edges"),
                                         restarts=False)
    if rng.random() < 0.3:
        pos = rng.randint(len(ops) // 2, len(ops))
        ops.insert(pos, {"op": "reopen"})
    return with_clock(rng, maybe_stale(rng, {"kind": "B", "latlon": latlon, "mag": mag, "ops": ops}, 0.12))


def _reopen(sess, crash=False):
    """Clean restart (close without commit, open again) or crash restart (byte copy of the files
    while the connection still holds its transaction, then open the copy)."""
    sq = sess.sq
    fn = os.path.join(sess.scratch, "store.sqlite")
    if crash:
        sess.gen_no += 1
        d2 = os.path.join(sess.scratch, "crash%d" % sess.gen_no)
        os.makedirs(d2)
        for suffix in ("", "-journal", "-wal", "-shm"):
            if os.path.exists(fn + suffix):
                shutil.copy(fn + suffix, os.path.join(d2, "store.sqlite" + suffix))
                if suffix == "-journal":
                    sess.bump("probe_hot_journal")
        try:
            sq.db.close()
        except Exception:
            pass
        # the restarted process works on the copy from now on
        for suffix in ("", "-journal", "-wal", "-shm"):
            if os.path.exists(fn + suffix):
                os.remove(fn + suffix)
        for name in os.listdir(d2):
            shutil.move(os.path.join(d2, name), os.path.join(sess.scratch, name))
        sess.bump("fired_crash")
    else:
        sq.db.close()
        sess.bump("fired_restart")
    if sess.ref.pending:
        sess.bump("probe_restart_with_pending_writes")
    sess.ref.rollback()
    sess.sq = SqliteMap.from_file(fn)


class MidCrash:
    """Crash point INSIDE an operation: when the k-th SQL statement of the operation starts, the database
    files are copied as they are on disk at that instant (the connection may be in the middle of a
    transaction)."""

    def __init__(self, sess, k):
        self.sess, self.k, self.n, self.dir = sess, k, 0, None

    def __call__(self, stmt):
        if self.dir is None and self.n == self.k:
            self.sess.gen_no += 1
            d2 = os.path.join(self.sess.scratch, "mid%d" % self.sess.gen_no)
            os.makedirs(d2)
            fn = os.path.join(self.sess.scratch, "store.sqlite")
            for suffix in ("", "-journal", "-wal", "-shm"):
                if os.path.exists(fn + suffix):
                    shutil.copy(fn + suffix, os.path.join(d2, "store.sqlite" + suffix))
                    if suffix == "-journal":
                        self.sess.bump("probe_hot_journal_mid_operation")
            self.dir = d2
            self.stmt = stmt.split()[0] if stmt.split() else "?"
        self.n += 1


def store_state(m):
    """(nodes, edges, node index, edge index) of a SqliteMap, order independent."""
    labels = sorted(m.labels())
    nodes = sorted((l, tuple(float(v) for v in m.node_coordinates(l))) for l in labels)
    edges = sorted((l, x[0]) for l in labels for x in m.nodes_nbrto(l))
    nidx = sorted(l for l, _ in m.all_nodes())
    eidx = sorted((a, b) for a, _, b, _ in m.all_edges())
    return nodes, edges, nidx, eidx


def model_state(st):
    nodes = sorted((l, (float(p[0]), float(p[1]))) for l, p in st["nodes"].items())
    edges = sorted((a, b) for a, b in st["edges"] if a in st["nodes"] and b in st["nodes"])
    nidx = sorted(st["nidx"] & set(st["nodes"]))
    eidx = sorted(e for e in st["eidx"] if e in set(tuple(x) for x in st["edges"]))
    return nodes, edges, nidx, eidx


def check_midcrash(sess, i, op, mc, commit_points):
    """The crash image must show exactly one of the committed states (commit points) that existed between
    the start of the operation and its end; un-acknowledged writes may be absent, never half present."""
    vs = []
    if mc.dir is None:
        return vs
    sess.bump("fired_crash_mid_operation")
    try:
        m = SqliteMap.from_file(os.path.join(mc.dir, "store.sqlite"))
    except Exception as exc:
        return [V("C18/sqlite/mid-operation-crash/cannot-open/%s" % type(exc).__name__, str(exc)[:200], i)]
    try:
        got = store_state(m)
    except Exception as exc:
        vs.append(V("C18/sqlite/mid-operation-crash/cannot-read/%s" % type(exc).__name__, str(exc)[:200], i))
        got = None
    finally:
        m.db.close()
    if got is not None:
        cands = [model_state(c) for c in commit_points]
        if got not in cands:
            what = [k for k, (g, c) in zip(("nodes", "edges", "node-index", "edge-index"), zip(got, cands[-1])) if g != c]
            vs.append(V("C18/sqlite/mid-operation-crash/not-a-commit-point/%s" % op["op"],
                        "statement %d (%s) of %s: differs from the last commit point in %s; got nodes=%d edges=%d nidx=%d eidx=%d" % (
                            mc.k, getattr(mc, "stmt", "?"), op["op"], what, len(got[0]), len(got[1]), len(got[2]), len(got[3])), i))
        elif len(commit_points) > 2 and got in cands[1:-1] and got != cands[0] and got != cands[-1]:
            sess.bump("probe_mid_crash_between_two_commits_of_one_operation")
        elif len(commit_points) > 1 and got == cands[-1] and got != cands[0]:
            sess.bump("probe_mid_crash_after_last_commit_of_operation")
    shutil.rmtree(mc.dir, ignore_errors=True)
    return vs


@judged("C11")
def eval_C11(doc):
    sess = StoreSession(doc, use_sqlite=True, use_inmem=True)
    clock = SimClock(doc.get("clock"))
    try:
        with environment(clock, "ERROR"):
            sess.open()
            for i, op in enumerate(doc["ops"]):
                k = op["op"]
                if k.startswith("q_"):
                    st_im = sess.im_ref
                    if st_im.loc:
                        sess.vs.extend(check_closeto(sess, i, op, sess.im, "inmem", st_im))
                        sess.bump("queries_inmem")
                    if sess.ref.consistent():
                        st_sq = sess.ref.store()
                        sess.vs.extend(check_closeto(sess, i, op, sess.sq, "sqlite", st_sq))
                        sess.bump("queries_sqlite")
                    else:
                        sess.bump("queries_skipped_index_inconsistent")
                elif k in ("reopen", "crash"):
                    _reopen(sess, crash=(k == "crash"))
                else:
                    if not sess.apply_checked(i, op, "C11"):
                        break
    finally:
        sess.close()
    sig = "|".join([str(doc["latlon"]), doc["mag"], "".join(o["op"][0] + o["op"][-1] for o in doc["ops"])[:40]])
    st = dict(sess.stats)
    st["ops"] = len(doc["ops"])
    st["clock_reads"] = clock.reads
    st["sim_seconds"] = clock.covered
    if clock.jumps:
        st["fired_clock"] = clock.jumps
    return {"violations": sess.vs, "sig": sig, "nontrivial": sess.mutations > 0, "stats": st,
            "shape": _store_shape(sess)}


# ----------------------------------------------------------------------------- C12
def gen_C12(rng, tier):
    latlon, mag = gen_world_b(rng, "C12")
    ops, labels, pts = gen_build_history(rng, latlon, mag, sqlite_features=False, queries=("bbq",), restarts=False)
    # queries here are box listings
    for op in ops:
        if op["op"] == "q_bbq":
            op["op"] = "q_box"
            r = op.pop("max_dist")
            op.pop("max_elmt")
            if latlon:
                dy, dx = r / 111000.0, r / 60000.0
            else:
                dy = dx = r
            y, x = op.pop("loc")
            if rng.random() < 0.3 and pts:
                # a box whose border passes exactly through a node
                p = rng.choice(pts)
                op["box"] = [min(y, p[0]), min(x, p[1]), max(y, p[0]), max(x, p[1])]
            else:
                op["box"] = [y - dy, x - dx, y + dy, x + dx]
    # a matching session on top (edge states, unbounded initial radius)
    d = {"kind": "B", "latlon": latlon, "mag": mag, "ops": ops}
    unit = 20.0 if latlon else (5.0 if mag == "big" else 1.0)
    cfg = gen.gen_config(rng, {"unit": unit}, only_edges=True, width=rng.choice([False, False, 2, 3]))
    cfg.pop("max_dist_init", None)
    if "max_dist" in cfg:
        if rng.random() < 0.5:
            cfg.pop("max_dist")
        else:
            cfg["max_dist"] = cfg["max_dist"] * 3
            cfg["max_dist_init"] = 1e12      # unbounded initial radius (None would fall back to max_dist)
    if len(labels) > 100:
        # a town: every road is a start candidate (unbounded initial radius), so the session needs a cut-off to stay local
        cfg["max_dist"] = unit * random.Random(gen.derive("town-cut", len(ops), labels[0])).choice([0.6, 1.0, 1.5])
        cfg["max_dist_init"] = 1e12
        if cfg.get("non_emitting_states"):
            cfg["ne_maxnb"] = 1 + len(labels) % 3
    d["cfg"] = cfg
    d["trace_seed"] = rng.randrange(1 << 30)
    return with_clock(rng, maybe_stale(rng, d, 0.15))


def compare_backends(sess, i):
    vs = []
    im, sq = sess.im, sess.sq
    nodes = sess.ref.view()["nodes"]
    if not nodes:
        return vs
    if im.size() != sq.size():
        vs.append(V("C12/size", "inmem=%r sqlite=%r" % (im.size(), sq.size()), i))
    if sorted(im.labels()) != sorted(sq.labels()):
        vs.append(V("C12/labels", "inmem=%r sqlite=%r" % (sorted(im.labels()), sorted(sq.labels())), i))
        return vs
    for l in sorted(nodes):
        a, b = im.node_coordinates(l), sq.node_coordinates(l)
        if (float(a[0]), float(a[1])) != (float(b[0]), float(b[1])):
            vs.append(V("C12/node_coordinates", "%r inmem=%r sqlite=%r" % (l, a, b), i))
        na, nb = _norm_nbrs(im.nodes_nbrto(l), drop_self=l), _norm_nbrs(sq.nodes_nbrto(l))
        if na != nb:
            vs.append(V("C12/nodes_nbrto", "%r inmem=%r sqlite=%r" % (l, na, nb), i))
    ea, eb = _norm_edges(im.all_edges()), _norm_edges(sq.all_edges())
    if ea != eb:
        vs.append(V("C12/all_edges", "inmem=%r sqlite=%r" % (ea[:6], eb[:6]), i))
    for a, _, b, _ in ea:
        xa, xb = _norm_edges(im.edges_nbrto((a, b)), drop_selfloops=True), _norm_edges(sq.edges_nbrto((a, b)))
        if xa != xb:
            vs.append(V("C12/edges_nbrto", "%r inmem=%r sqlite=%r" % ((a, b), xa, xb), i))
            break
    ba, bb_ = im.bb(), sq.bb()
    if tuple(float(v) for v in ba) != tuple(float(v) if v is not None else None for v in bb_):
        vs.append(V("C12/bb", "inmem=%r sqlite=%r" % (ba, bb_), i))
    return vs


@judged("C12")
def eval_C12(doc):
    sess = StoreSession(doc, use_sqlite=True, use_inmem=True)
    clock = SimClock(doc.get("clock"))
    world = None
    try:
        with environment(clock, "ERROR"):
            sess.open()
            for i, op in enumerate(doc["ops"]):
                k = op["op"]
                if k == "q_box":
                    box = tuple(op["box"])
                    nodes = sess.ref.view()["nodes"]
                    # fragility: a node exactly on the border is fine (both inclusive); 32-bit rounding must not matter
                    a = sorted((l, (float(p[0]), float(p[1]))) for l, p in sess.im.all_nodes(bb=box))
                    b = sorted((l, (float(p[0]), float(p[1]))) for l, p in sess.sq.all_nodes(bb=box))
                    exp = sorted((l, (float(p[0]), float(p[1]))) for l, p in nodes.items()
                                 if box[0] <= p[0] <= box[2] and box[1] <= p[1] <= box[3])
                    if a != b:
                        which = "sqlite" if a == exp else ("inmem" if b == exp else "both")
                        sess.vs.append(V("C12/all_nodes-box/%s-deviates" % which, "box=%r inmem=%r sqlite=%r" % (box, a, b), i))
                    if any(p[0] in (box[0], box[2]) or p[1] in (box[1], box[3]) for p in nodes.values()):
                        sess.bump("probe_node_on_box_border")
                    sess.bump("box_queries")
                else:
                    if not sess.apply_checked(i, op, "C12"):
                        break
                    sess.vs.extend(compare_backends(sess, i))
                    sess.bump("backend_comparisons")
            # the same edge-based matcher on either backend
            st = sess.ref.store(indexed_only=False)
            if len(st.loc) >= 2 and st.edges():
                import random
                rng = random.Random(doc["trace_seed"])
                world = {"latlon": sess.latlon, "unit": 20.0 if sess.latlon else (5.0 if doc["mag"] == "big" else 1.0),
                         "nodes": [[l, list(p), list(dict.fromkeys(st.nbrs.get(l, [])))] for l, p in st.loc.items()],
                         "linked": []}
                if sess.latlon:
                    # generate the trace in a local metric frame and place it
                    l0 = next(iter(st.loc.values()))
                    c = math.cos(math.radians(l0[0]))
                    plan = dict(world)
                    plan["latlon"] = False
                    plan["nodes"] = [[l, [(p[0] - l0[0]) * 111194.9, (p[1] - l0[1]) * 111194.9 * c], nb] for l, p, nb in world["nodes"]]
                    tr = gen.gen_trace(rng, plan, noise=rng.choice([0.0, 3.0, 8.0]), spacing=rng.choice([10.0, 30.0, 80.0]))
                    trace = [[l0[0] + p[0] / 111194.9, l0[1] + p[1] / (111194.9 * c)] for p in tr]
                else:
                    trace = gen.gen_trace(rng, world)
                mdoc = {"kind": "A", "world": world, "trace": trace, "cfg": doc["cfg"],
                        "ops": [{"op": "match", "k": len(trace), "unique": False}], "faults": {}, "log": "ERROR"}
                if rng.random() < 0.35:
                    # the stored map is closed and opened again (pickle / SQLite file) before the final match
                    mdoc["ops"] = [{"op": "match", "k": max(1, len(trace) // 2), "unique": False},
                                   {"op": "match", "k": len(trace), "unique": False}]
                    mdoc["faults"] = {"restart_before": [1]}
                    sess.bump("fired_restart_before_match")
                d1 = clone(mdoc)
                d1["backend"] = "inmem_api"
                d2 = clone(mdoc)
                d2["backend"] = "sqlite"
    finally:
        sess.close()
    if world is not None:
        a = run_session(d1)
        b = run_session(d2)
        oa_, ob = a.outcomes[-1], b.outcomes[-1]
        if (oa_.exc is None) != (ob.exc is None):
            sess.vs.append(V("C12/match/exception-only-one-backend", "inmem=%r sqlite=%r" % (oa_.exc, ob.exc), len(doc["ops"])))
        elif oa_.obs is not None and ob.obs is not None:
            c = compare(oa_.obs, ob.obs)
            if c.startswith("diff"):
                from .twins import tie_upstream
                if tie_upstream(doc["cfg"], a, b):
                    sess.bump("inconclusive_tie_upstream")
                else:
                    sess.vs.append(V("C12/match/" + c, "inmem=%r sqlite=%r" % ((oa_.obs["idx"], oa_.obs["bestE"]), (ob.obs["idx"], ob.obs["bestE"])), len(doc["ops"])))
            elif c.startswith("tie"):
                sess.bump("ties")
            if not oa_.obs["empty"]:
                sess.bump("probe_matched_on_both")
        sess.bump("match_twins")
    sig = "|".join([str(doc["latlon"]), doc["mag"], "".join(o["op"][0] + o["op"][-1] for o in doc["ops"])[:40],
                    str(doc["cfg"]["family"])])
    st = dict(sess.stats)
    st["ops"] = len(doc["ops"])
    st["clock_reads"] = clock.reads
    st["sim_seconds"] = clock.covered
    if clock.jumps:
        st["fired_clock"] = clock.jumps
    return {"violations": sess.vs, "sig": sig, "nontrivial": sess.mutations > 0, "stats": st,
            "shape": _store_shape(sess)}


# ----------------------------------------------------------------------------- C18
def gen_C18(rng, tier):
    latlon, mag = gen_world_b(rng, "C18")
    kind = "sqlite" if rng.random() < 0.75 else "pickle"
    ops, labels, pts = gen_build_history(rng, latlon, mag, sqlite_features=(kind == "sqlite"),
                                         queries=("nodes", "edges"), restarts=True,
                                         safe_commit_p=0.8)
    if kind == "pickle":
        ops = [o for o in ops if o["op"] != "crash"]
    else:
        # crash points inside operations: at the k-th SQL statement the operation issues
        build = [o for o in ops if o["op"] in ("add_node", "add_nodes", "add_edge", "add_edges", "reindex_nodes",
                                               "reindex_edges", "commit", "connect_parallelroads")]
        for o in rng.sample(build, min(len(build), rng.randint(0, 3))):
            # bulk inserts issue one statement per row, then COMMIT, then the re-index statements: a larger
            # range reaches the crash points between the two commits of such an operation
            o["midcrash"] = rng.randrange(0, 30 if o["op"] in ("add_edges", "add_nodes", "connect_parallelroads") else 10)
    battery = [gen_query(rng, rng.choice(["nodes", "edges"]), pts, latlon, mag) for _ in range(4)]
    hs = random.Random(gen.derive("ship", repr(rng.getstate())))
    if kind == "sqlite" and hs.random() < 0.3:
        for _ in range(hs.randint(1, 2)):
            ops.insert(hs.randint(1, len(ops)), {"op": "ship"})
    d = {"kind": "B", "store": kind, "latlon": latlon, "mag": mag, "ops": ops, "battery": battery}
    if rng.random() < 0.3:
        d["crs"] = [rng.choice(["EPSG:4326", "EPSG:4258"]), rng.choice(["EPSG:3395", "EPSG:31370", "EPSG:3857"])]
    if kind == "sqlite" and rng.random() < 0.12:
        # the final reopen is also done by another interpreter with another hash seed; such histories always link
        # parallel roads first (the links are stored under computed edge identifiers)
        d["xproc"] = rng.randrange(1, 2 ** 31)
        if not any(o["op"] == "connect_parallelroads" for o in ops):
            pos = max((k for k, o in enumerate(ops) if o["op"] in ("add_edge", "add_edges", "reindex_edges", "commit")), default=len(ops) - 1)
            ops.insert(pos + 1, {"op": "reindex_edges"})
            ops.insert(pos + 2, {"op": "connect_parallelroads", "dist": 1e9})
    if kind == "pickle" and rng.random() < 0.4 and len(labels) >= 4:
        d["linked"] = [[[labels[0], labels[1]], [[labels[2], labels[3]]]]]
    if kind == "pickle" and rng.random() < 0.3:
        # a map name is a name: dots, blanks and non-ASCII letters are allowed in file names
        d["name"] = rng.choice(["city.north", "a.b.c", "my map", "v1.2", "räume", "store.pkl", ".hidden"])
    if kind == "pickle":
        # the writer keeps building on its own object after some dumps (the reopened copy is only read)
        for o in ops:
            if o["op"] == "reopen" and rng.random() < 0.45:
                o["keep"] = True
    return with_clock(rng, maybe_stale(rng, d, 0.3 if kind == "pickle" else 0.15, kind))


def reopen_in_other_process(sess, doc, labels, edges, hashseed):
    """Cross-process reopen: the stored file is copied and opened by a fresh interpreter with another
    PYTHONHASHSEED; returns that interpreter's answers (or raises on a harness problem)."""
    import json
    import subprocess
    import sys
    fn = os.path.join(sess.scratch, "store.sqlite")
    sess.gen_no += 1
    d2 = os.path.join(sess.scratch, "xproc%d" % sess.gen_no)
    os.makedirs(d2)
    shutil.copy(fn, os.path.join(d2, "store.sqlite"))
    spec = os.path.join(d2, "spec.json")
    with open(spec, "w") as f:
        json.dump({"doc": {"battery": doc["battery"]}, "labels": labels, "edges": [list(e) for e in edges]}, f)
    env = dict(os.environ, PYTHONHASHSEED=str(hashseed), PYTHONWARNINGS="ignore")
    r = subprocess.run([sys.executable, os.path.join(os.path.dirname(os.path.realpath(__file__)), "b_child.py"),
                        os.path.join(d2, "store.sqlite"), spec], env=env, capture_output=True, text=True, timeout=120)
    shutil.rmtree(d2, ignore_errors=True)
    if r.returncode != 0:
        if "leuvenmapmatching" in r.stderr and "/verif/" not in r.stderr.split("leuvenmapmatching")[-1][:40]:
            return {"raised": r.stderr.strip().splitlines()[-1][:200]}
        raise RuntimeError("cross-process child failed: " + r.stderr[-400:])
    return json.loads(r.stdout)


def diff_battery(a, b):
    for k in a:
        if a[k] != b[k]:
            return k
    return None


@judged("C18")
def eval_C18(doc):
    vs = []
    stats = {}
    latlon = bool(doc["latlon"])
    clock = SimClock(doc.get("clock"))

    def bump(k, n=1):
        stats[k] = stats.get(k, 0) + n
    mutations = 0
    if doc["store"] == "pickle":
        scratch = tempfile.mkdtemp(prefix="lmm-simb-", dir=SCRATCH_ROOT)
        try:
            with environment(clock, "ERROR"):
                kw = {}
                if "crs" in doc:
                    kw = {"crs_lonlat": doc["crs"][0], "crs_xy": doc["crs"][1]}
                linked = None
                if doc.get("linked"):
                    linked = {tuple(e): [tuple(f) for f in fs] for e, fs in doc["linked"]}
                plant_stale(scratch, doc, bump)
                pname = doc.get("name", "store")
                m = InMemMap(pname, use_latlon=latlon, use_rtree=False, index_edges=False, dir=scratch,
                             linked_edges=linked, **kw)
                nodes, edges, dangling = {}, [], []
                for i, op in enumerate(doc["ops"]):
                    k = op["op"]
                    if k == "add_node":
                        m.add_node(op["label"], tuple(op["loc"]))
                        nodes.setdefault(op["label"], tuple(op["loc"]))
                        edges.extend(e for e in dangling if e[1] == op["label"] and e not in edges)
                        mutations += 1
                    elif k == "add_edge":
                        if op["a"] in nodes and op["b"] in nodes:
                            m.add_edge(op["a"], op["b"])
                            if (op["a"], op["b"]) not in edges:
                                edges.append((op["a"], op["b"]))
                            mutations += 1
                    elif k == "reject_edge":
                        if op["a"] in nodes and op["b"] not in nodes:
                            try:
                                m.add_edge(op["a"], op["b"])
                            except Exception:
                                bump("fired_rejected_call")
                            else:
                                dangling.append((op["a"], op["b"]))
                    elif k == "reopen" and nodes:
                        if linked and any(x not in nodes for e, fs in linked.items() for g in [e] + list(fs) for x in g):
                            continue
                        before = battery(m, doc, sorted(nodes), list(edges), None)
                        m.dump()
                        # "All files will be saved to the `dir` directory using the `name` as filename"
                        m2 = InMemMap.from_pickle(os.path.join(scratch, pname + ".pkl"))
                        after = battery(m2, doc, sorted(nodes), list(edges), None)
                        dk = diff_battery(before, after)
                        if dk:
                            vs.append(V("C18/pickle/%s" % dk, "before=%r after=%r" % (str(before[dk])[:150], str(after[dk])[:150]), i))
                        if (m2.linked_edges or None) != (m.linked_edges or None):
                            vs.append(V("C18/pickle/linked_edges", "%r vs %r" % (m.linked_edges, m2.linked_edges), i))
                        if op.get("keep"):
                            bump("fired_reopen_writer_continues")
                        else:
                            m = m2
                        bump("fired_restart")
        finally:
            shutil.rmtree(scratch, ignore_errors=True)
        sig = "|".join(["pickle", str(latlon), doc["mag"], "".join(o["op"][0] + o["op"][-1] for o in doc["ops"])[:40]])
        stats["ops"] = len(doc["ops"])
        return {"violations": vs, "sig": sig, "nontrivial": mutations > 0, "stats": stats}
    # ---- SQLite
    sess = StoreSession(doc, use_sqlite=True, use_inmem=False)
    try:
        with environment(clock, "ERROR"):
            sess.scratch = tempfile.mkdtemp(prefix="lmm-simb-", dir=SCRATCH_ROOT)
            kw = {}
            if "crs" in doc:
                kw = {"crs_lonlat": doc["crs"][0], "crs_xy": doc["crs"][1]}
            plant_stale(sess.scratch, doc, sess.bump)
            sess.sq = SqliteMap("store", use_latlon=latlon, dir=sess.scratch, **kw)
            exp_crs = tuple(doc["crs"]) if "crs" in doc else ("EPSG:4326", "EPSG:3395")
            for i, op in enumerate(doc["ops"]):
                k = op["op"]
                if k in ("reopen", "crash"):
                    st_before = sess.ref.view()
                    had_pending = bool(sess.ref.pending)
                    before = None
                    labels = sorted(st_before["nodes"])
                    if not had_pending and sess.ref.consistent():
                        before = battery(sess.sq, doc, labels, [e for e in st_before["edges"]], None)
                    _reopen(sess, crash=(k == "crash"))
                    st_after = sess.ref.view()       # committed content only
                    m = sess.sq
                    # --- flags and settings
                    if bool(m.use_latlon) != latlon:
                        vs.append(V("C18/sqlite/use_latlon-flag", "built %r reopened %r" % (latlon, m.use_latlon), i))
                    d = m.distance((10.0, 10.0), (10.0, 11.0))
                    if bool(d > 1000.0) != latlon:
                        vs.append(V("C18/sqlite/metric-in-use", "built latlon=%r, distance((10,10),(10,11))=%r after reopen" % (latlon, d), i))
                    if (m.crs_lonlat, m.crs_xy) != exp_crs:
                        vs.append(V("C18/sqlite/crs", "built %r reopened %r" % (exp_crs, (m.crs_lonlat, m.crs_xy)), i))
                    # --- content against the committed model
                    labs = sorted(st_after["nodes"])
                    got_nodes = sorted((l, (float(p[0]), float(p[1]))) for l, p in
                                       [(l, m.node_coordinates(l)) for l in m.labels()])
                    exp_nodes = sorted((l, (float(p[0]), float(p[1]))) for l, p in st_after["nodes"].items())
                    if got_nodes != exp_nodes:
                        cls = "C18/sqlite/nodes-after-%s" % ("crash" if k == "crash" else "reopen")
                        vs.append(V(cls, "expected %r got %r" % (exp_nodes[:5], got_nodes[:5]), i))
                    exp_nb = {l: sorted(b for a, b in st_after["edges"] if a == l and b in st_after["nodes"]) for l in labs}
                    for l in labs:
                        got = sorted(x[0] for x in m.nodes_nbrto(l))
                        if got != exp_nb[l]:
                            cls = "C18/sqlite/edges-after-%s" % ("crash" if k == "crash" else "reopen")
                            vs.append(V(cls, "node %r expected nbrs %r got %r" % (l, exp_nb[l], got), i))
                            break
                    got_idx = sorted(l for l, _ in m.all_nodes())
                    if got_idx != sorted(st_after["nidx"]):
                        vs.append(V("C18/sqlite/node-index-after-%s" % ("crash" if k == "crash" else "reopen"),
                                    "expected %r got %r" % (sorted(st_after["nidx"]), got_idx), i))
                    got_eidx = sorted((a, b) for a, _, b, _ in m.all_edges())
                    exp_eidx = sorted(e for e in st_after["eidx"] if e in st_after["edges"] or True)
                    if got_eidx != sorted(set(exp_eidx) & set(tuple(e) for e in st_after["edges"])):
                        vs.append(V("C18/sqlite/edge-index-after-%s" % ("crash" if k == "crash" else "reopen"),
                                    "expected %r got %r" % (exp_eidx[:6], got_eidx[:6]), i))
                    if doc.get("xproc") is not None and i == len(doc["ops"]) - 1 and sess.ref.consistent() and labels:
                        # the same file opened by another process (another hash seed) must answer like this one
                        here = battery_json(m, doc, labels, [e for e in st_after["edges"]])
                        there = reopen_in_other_process(sess, doc, labels, [e for e in st_after["edges"]], doc["xproc"])
                        bump("fired_restart_in_other_process")
                        if "raised" in there:
                            vs.append(V("C18/sqlite/other-process/raises", there["raised"], i))
                        else:
                            dk = diff_battery(here, there)
                            if dk:
                                vs.append(V("C18/sqlite/other-process/answers-differ/%s" % dk,
                                            "this process=%r other process=%r" % (str(here[dk])[:150], str(there[dk])[:150]), i))
                    if before is not None:
                        after = battery(m, doc, labels, [e for e in st_before["edges"]], None)
                        dk = diff_battery(before, after)
                        if dk:
                            vs.append(V("C18/sqlite/answers-differ/%s" % dk, "before=%r after=%r" % (str(before[dk])[:150], str(after[dk])[:150]), i))
                        bump("full_battery_comparisons")
                    bump("reopen_cycles")
                elif k == "ship":
                    # fault kind file_alone: while the writer still holds its connection, the database file - the one file
                    # `SqliteMap.from_file` takes - is copied without any side file and opened elsewhere.  With nothing
                    # pending it must show the committed map.
                    if not sess.ref.pending:
                        fn = os.path.join(sess.scratch, "store.sqlite")
                        d2 = os.path.join(sess.scratch, "ship%d" % i)
                        os.makedirs(d2)
                        shutil.copy(fn, os.path.join(d2, "store.sqlite"))
                        bump("fired_file_alone")
                        m2 = None
                        try:
                            m2 = SqliteMap.from_file(os.path.join(d2, "store.sqlite"))
                            got = store_state(m2)
                        except Exception as exc:
                            vs.append(V("C18/sqlite/file-alone/raises/%s" % type(exc).__name__, str(exc)[:200], i))
                        else:
                            exp = model_state(sess.ref.view())
                            for name, g_, e_ in zip(("nodes", "edges", "node-index", "edge-index"), got, exp):
                                if g_ != e_:
                                    vs.append(V("C18/sqlite/file-alone/%s" % name, "expected %r got %r" % (e_[:5], g_[:5]), i))
                                    break
                        finally:
                            if m2 is not None:
                                try:
                                    m2.db.close()
                                except Exception:
                                    pass
                            shutil.rmtree(d2, ignore_errors=True)
                elif k.startswith("q_"):
                    pass
                else:
                    mc = None
                    if "midcrash" in op:
                        import copy
                        mc = MidCrash(sess, op["midcrash"])
                        sess.ref.record = [copy.deepcopy(sess.ref.committed)]
                        sess.sq.db.set_trace_callback(mc)
                    ok = sess.apply_checked(i, op, "C18")
                    if mc is not None:
                        sess.sq.db.set_trace_callback(None)
                        points, sess.ref.record = sess.ref.record, None
                        vs.extend(check_midcrash(sess, i, op, mc, points))
                    if not ok:
                        break
    finally:
        sess.close()
    vs.extend(sess.vs)
    for k2, v in sess.stats.items():
        stats[k2] = stats.get(k2, 0) + v
    sig = "|".join(["sqlite", str(latlon), doc["mag"], "".join(o["op"][0] + o["op"][-1] for o in doc["ops"])[:40]])
    stats["ops"] = len(doc["ops"])
    stats["clock_reads"] = clock.reads
    stats["sim_seconds"] = clock.covered
    if clock.jumps:
        stats["fired_clock"] = clock.jumps
    return {"violations": vs, "sig": sig, "nontrivial": sess.mutations > 0, "stats": stats,
            "shape": _store_shape(sess)}
