"""R-score: the documented probability model (DESIGN.md appendix A), written independently of
the repository.  Works on plain records so that it can score both reported lattice entries
(C02) and walks enumerated by the reference (C01)."""
import math

from .refgeom import metric

LOG09 = math.log(0.9)
LOG099 = math.log(0.99)
LOG05 = math.log(0.5)
INF = float("inf")


class Rec:
    """One state on a path.  l2 None => node state.
    pm: matched point on the map; tm: relative position on the edge (0 for nodes);
    p2: coordinates of the edge's end node; po: matched point on the observation side;
    ne: non-emitting?  d_o/d_s: accumulated distances (distance family)."""
    __slots__ = ("l1", "l2", "pm", "tm", "p2", "po", "ne", "d_o", "d_s", "dist", "lp", "lpe", "lpne", "length")

    def __init__(self, l1, l2, pm, tm, p2, po, ne, dist):
        self.l1, self.l2, self.pm, self.tm, self.p2, self.po, self.ne, self.dist = l1, l2, pm, tm, p2, po, ne, dist
        self.d_o = 0.0
        self.d_s = 0.0
        self.lp = self.lpe = self.lpne = None
        self.length = None

    @property
    def label(self):
        # identity of the state: the label pair (never a joined string - 'a'+'b-c' and 'a-b'+'c' are different roads)
        return (self.l1, self.l2)


class Model:
    def __init__(self, cfg, latlon):
        self.cfg = cfg
        self.family = cfg["family"]
        self.geom = metric(latlon)
        self.sigma = float(cfg["obs_noise"])
        sne = cfg.get("obs_noise_ne")
        self.sigma_ne = self.sigma if sne is None else float(sne)
        self.g = bool(cfg.get("avoid_goingback", True))
        md = cfg.get("max_dist")
        self.max_dist = float(md) if md else INF
        mdi = cfg.get("max_dist_init")
        self.max_dist_init = float(mdi) if mdi else self.max_dist
        mpn = cfg.get("min_prob_norm")
        self.min_lpn = math.log(mpn) if mpn else -INF
        self.f = math.log(cfg.get("non_emitting_length_factor", 0.75))
        dn = cfg.get("dist_noise", self.sigma)
        dnn = cfg.get("dist_noise_ne", dn)
        self.beta = 2.0 * dn * dn
        self.beta_ne = 2.0 * dnn * dnn
        self.only_edges = True if self.family == "distance" else bool(cfg.get("only_edges", True))

    # emission
    def emission(self, d, ne):
        s = self.sigma_ne if ne else self.sigma
        return -(d * d) / (2.0 * s * s)

    # transition p -> m, pp = state before p on the path (or None)
    def transition(self, pp, p, m):
        if self.family == "simple":
            if p.label == m.label:
                t = 0.0
                if self.g and m.tm < p.tm:
                    t += LOG099
                return t, None, None
            t = LOG09
            if self.g and pp is not None and pp.label == m.label:
                t += LOG05
            return t, None, None
        # distance family (edge states only)
        dist = self.geom.dist
        d_z = dist(p.po, m.po)
        same = (p.l1 == m.l1 and p.l2 == m.l2) or (p.l1 == m.l2 and p.l2 == m.l1)
        if same or p.l2 != m.l1:
            d_x = dist(p.pm, m.pm)
        else:
            d_x = dist(p.pm, p.p2) + dist(p.p2, m.pm)
        if m.ne:
            d_z += p.d_o
            d_x += p.d_s
        beta = self.beta_ne if (p.ne or m.ne) else self.beta
        t = -((d_z - d_x) ** 2) / beta
        if p.label == m.label:
            if self.g and m.tm < p.tm:
                t += LOG05
        elif (p.l1, p.l2) == (m.l2, m.l1):
            if self.g:
                t += LOG05
        elif p.l2 != m.l1:
            t += LOG05
        elif self.g and pp is not None and pp.label == m.label:
            t += LOG05
        return t, d_z, d_x

    def score_first(self, m):
        m.lp = m.lpe = self.emission(m.dist, False)
        m.lpne = 0.0
        m.length = 1
        m.d_o = m.d_s = 0.0
        return m

    def score_next(self, pp, p, m):
        t, d_z, d_x = self.transition(pp, p, m)
        e = self.emission(m.dist, m.ne)
        delta = t + e
        if d_z is not None:
            m.d_o, m.d_s = d_z, d_x
        if not m.ne:
            m.lp = m.lpe = p.lp + delta
            m.lpne = 0.0
            m.length = p.length + 1
        else:
            m.lpe = p.lpe + self.f
            m.lpne = min(p.lpne, delta)
            m.lp = m.lpe + m.lpne
            m.length = p.length
        return m

    def stopped_first(self, m):
        return m.lp < self.min_lpn or m.dist > self.max_dist

    def stopped(self, m):
        return (m.lp / m.length) < self.min_lpn or m.dist > self.max_dist


def close(a, b, rel=1e-9, abs_=1e-12):
    if a is None or b is None:
        return a is b
    if a == b:
        return True
    return abs(a - b) <= abs_ + rel * max(abs(a), abs(b))
