"""Answer batteries of a map (light module: imported by the cross-process child without the matchers)."""


def _pt(p):
    """A broken tree may answer with a missing point: keep it as None so that the answers differ instead of the
    harness failing."""
    return None if p is None else (float(p[0]), float(p[1]))


def _norm_nbrs(rows, drop_self=None):
    out = []
    for l, p in rows:
        if drop_self is not None and l == drop_self:
            continue
        out.append((l, _pt(p)))
    return sorted(out, key=repr)


def _norm_edges(rows, drop_selfloops=False):
    out = []
    for a, pa, b, pb in rows:
        if drop_selfloops and a == b:
            continue
        out.append((a, _pt(pa), b, _pt(pb)))
    return sorted(out, key=repr)


def battery(m, doc, labels, edges, geomcheck):
    """Answers of a map to a fixed battery of questions (all made order-independent)."""
    out = {}
    out["use_latlon"] = bool(m.use_latlon)
    # which metric does `distance` really use?
    d = m.distance((10.0, 10.0), (10.0, 11.0))
    out["metric_is_latlon"] = bool(d > 1000.0)
    out["crs"] = (m.crs_lonlat, m.crs_xy)
    out["size"] = m.size()
    out["nodes"] = sorted(((l, _pt(p)) for l, p in m.all_nodes()), key=repr)
    out["edges"] = _norm_edges(m.all_edges())
    out["nbrs"] = [(l, _norm_nbrs(m.nodes_nbrto(l))) for l in labels]
    out["enbrs"] = [(e, _norm_edges(m.edges_nbrto(e))) for e in edges]
    q = []
    for op in doc["battery"]:
        loc = tuple(op["loc"])
        if op["op"] == "q_nodes":
            r = m.nodes_closeto(loc, max_dist=op["max_dist"], max_elmt=None)
            q.append(sorted((round(x[0], 9), x[1]) for x in r))
        else:
            r = m.edges_closeto(loc, max_dist=op["max_dist"], max_elmt=None)
            q.append(sorted((round(x[0], 9), x[1], x[3], round(x[6], 9)) for x in r))
    out["spatial"] = q
    return out


def battery_json(m, doc, labels, edges):
    """The battery, normalised through JSON so that answers computed in different processes compare."""
    import json
    return json.loads(json.dumps(battery(m, doc, labels, edges, None), default=repr))


