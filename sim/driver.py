#!/venv/bin/python
"""Driver of the deterministic simulation checks.

  driver.py check <PROP> [--tier quick|thorough] [--count N] [--jobs J]
  driver.py replay <file>
  driver.py selftest determinism [--n N]
  driver.py selftest sensitivity [--only name,...]

Exit codes: 0 property held on everything explored (KNOWN-FINDING lines possible);
1 VIOLATION (unlisted); 2 HARNESS-ERROR; 3 replay did not reproduce.
"""
import argparse
import hashlib
import json
import os
import shutil
import subprocess
import sys
import tempfile
import time
import warnings

warnings.filterwarnings("ignore")
HERE = os.path.dirname(os.path.realpath(__file__))
VERIF = os.path.dirname(HERE)
sys.path.insert(0, VERIF)
PY = sys.executable if os.path.exists(sys.executable) else "/venv/bin/python"
WORKER = os.path.join(HERE, "worker.py")
OUT = os.path.join(VERIF, "out")
DEFAULT_SEED = 20260928
NLANES = 16

from sim.gen import derive  # noqa: E402

QUICK = {"C01": 10000, "C02": 12000, "C03": 10000, "C04": 12000, "C05": 10000, "C06": 10000, "C07": 9000,
         "C08": 8000, "C09": 10000, "C10": 9000, "C10H": 3000, "C11": 8000, "C12": 3000, "C15": 6000,
         "C16": 8000, "C17": 8000, "C18": 4000, "C19": 6000}
THOROUGH_FACTOR = 20
PROPS = ["C01", "C02", "C03", "C04", "C05", "C06", "C07", "C08", "C09", "C10", "C11", "C12", "C15", "C16",
         "C17", "C18", "C19"]


def say(msg):
    sys.stdout.write(msg + "\n")
    sys.stdout.flush()


def harness_error(msg):
    say("HARNESS-ERROR " + msg)
    sys.exit(2)


def hash_pool(seed, n=NLANES):
    return [derive("hashseed", seed, k) % (2 ** 32) for k in range(n)]


def env_for(hashseed):
    env = dict(os.environ)
    env["PYTHONHASHSEED"] = str(hashseed)
    env["PYTHONWARNINGS"] = "ignore"
    for k in ("OMP_NUM_THREADS", "OPENBLAS_NUM_THREADS", "MKL_NUM_THREADS"):
        env[k] = "1"
    env.setdefault("VERIF_REPO", "/repo")
    return env


# ----------------------------------------------------------------------------- lanes
def run_lanes(prop, seed, tier, count, hashseeds, jobs, deadline_s, tmpdir, nlanes=None, tag=""):
    """Start one interpreter per lane (fixed hash seed each), at most `jobs` at a time."""
    nl = nlanes if nlanes is not None else len(hashseeds)
    pending = list(range(nl))
    running = {}
    results = {}
    t_end = time.time() + deadline_s + 120
    while pending or running:
        while pending and len(running) < jobs:
            k = pending.pop(0)
            out = os.path.join(tmpdir, "%s%s-lane%d.json" % (prop, tag, k))
            err = open(os.path.join(tmpdir, "%s%s-lane%d.err" % (prop, tag, k)), "w")
            p = subprocess.Popen([PY, WORKER, "batch", prop, str(seed), tier, str(k), str(nl), str(count), out,
                                  str(deadline_s)], env=env_for(hashseeds[k]), stdout=err, stderr=err,
                                 cwd=VERIF)
            running[k] = (p, out, err)
        time.sleep(0.05)
        for k in list(running):
            p, out, err = running[k]
            rc = p.poll()
            if rc is None:
                if time.time() > t_end:
                    p.kill()
                    harness_error("lane %d of %s timed out" % (k, prop))
                continue
            err.close()
            del running[k]
            if rc != 0 or not os.path.exists(out):
                tail = open(err.name).read()[-2000:]
                for q, _, _ in running.values():
                    q.kill()
                harness_error("lane %d of %s exited with %r\n%s" % (k, prop, rc, tail))
            with open(out) as f:
                results[k] = json.load(f)
    return [results[k] for k in sorted(results)]


class Server:
    """A persistent worker interpreter with a fixed hash seed (minimiser / replay)."""

    def __init__(self, hashseed):
        self.hashseed = hashseed
        self.p = subprocess.Popen([PY, WORKER, "serve"], env=env_for(hashseed), stdin=subprocess.PIPE,
                                  stdout=subprocess.PIPE, stderr=subprocess.DEVNULL, cwd=VERIF, text=True)

    def eval(self, prop, doc):
        self.p.stdin.write(json.dumps({"prop": prop, "doc": doc}) + "\n")
        self.p.stdin.flush()
        line = self.p.stdout.readline()
        if not line:
            raise RuntimeError("worker died")
        return json.loads(line)

    def close(self):
        try:
            self.p.stdin.close()
            self.p.wait(timeout=10)
        except Exception:
            self.p.kill()


# ----------------------------------------------------------------------------- known findings
def load_findings():
    p = os.path.join(VERIF, "known_findings.json")
    if not os.path.exists(p):
        return []
    with open(p) as f:
        return json.load(f).get("findings", [])


def known_for(prop, cls, findings):
    for f in findings:
        if f.get("status") == "known" and f["property"] == prop and f["class"] == cls:
            return f
    return None


# ----------------------------------------------------------------------------- hash-seed comparison (C10)
def compare_replicas(reps):
    """reps: list of lane results (same scenarios, different hash seeds) -> violations."""
    from sim.twins import compare
    base = reps[0]
    viols = []
    ties = 0
    n = 0
    docs = {}
    for r in reps:
        for d in r.get("samples", []):
            docs[d["index"]] = d
    for idx, obs0 in base.get("observations", {}).items():
        n += 1
        for r in reps[1:]:
            obs1 = r.get("observations", {}).get(idx)
            if obs1 is None:
                continue
            cls = None
            for a, b in zip(obs0, obs1):
                if a["exc"] != b["exc"]:
                    cls = "C10/hashseed/exception-differs"
                    break
                c = compare(a["obs"], b["obs"], rel=0.0, abs_=0.0)
                if c != "equal":
                    cls = "C10/hashseed/" + ("tie" if c.startswith("tie") else c)
                    break
            if cls:
                viols.append({"cls": cls, "detail": "hash seeds %s vs %s" % (base["hashseed"], r["hashseed"]),
                              "index": int(idx), "hashseeds": [int(base["hashseed"]), int(r["hashseed"])]})
                break
    return viols, n


# ----------------------------------------------------------------------------- minimiser
def shrink_candidates(doc):
    """Yield simpler variants of a scenario document (World A and World B)."""
    import copy
    d = doc
    ops = d.get("ops", [])
    # drop operations (end first, then middle)
    for i in range(len(ops) - 1, -1, -1):
        if len(ops) > 1:
            c = copy.deepcopy(d)
            del c["ops"][i]
            _fix_fault_indices(c, i)
            yield "drop-op", c
    f = d.get("faults") or {}
    for k in list(f):
        c = copy.deepcopy(d)
        del c["faults"][k]
        yield "drop-fault", c
    if d.get("backend") not in (None, "inmem") and d.get("kind", "A") == "A":
        c = copy.deepcopy(d)
        c["backend"] = "inmem"
        yield "backend", c
    if d.get("kind", "A") != "A":
        return
    tr = d.get("trace", [])
    for i in range(len(tr) - 1, -1, -1):
        if len(tr) > 1:
            c = copy.deepcopy(d)
            del c["trace"][i]
            if "times" in c:
                del c["times"][i]
            for op in c["ops"]:
                if "k" in op and op["k"] > i:
                    op["k"] = max(1, op["k"] - 1)
            yield "drop-obs", c
    nodes = d["world"]["nodes"]
    for i in range(len(nodes) - 1, -1, -1):
        if len(nodes) > 1:
            c = copy.deepcopy(d)
            lab = c["world"]["nodes"][i][0]
            del c["world"]["nodes"][i]
            for nd in c["world"]["nodes"]:
                nd[2] = [x for x in nd[2] if x != lab]
            c["world"]["linked"] = [[e, [g for g in fs if lab not in g]] for e, fs in c["world"].get("linked", [])
                                    if lab not in e]
            yield "drop-node", c
    for i, nd in enumerate(nodes):
        for j in range(len(nd[2])):
            c = copy.deepcopy(d)
            del c["world"]["nodes"][i][2][j]
            yield "drop-edge", c
    if d["world"].get("linked"):
        c = copy.deepcopy(d)
        c["world"]["linked"] = []
        yield "drop-linked", c
    for k in list(d["cfg"]):
        if k in ("family", "obs_noise", "only_edges", "avoid_goingback", "non_emitting_states"):
            continue        # dropping these would silently switch the repository's default (on) back in
        c = copy.deepcopy(d)
        del c["cfg"][k]
        yield "drop-cfg", c
    for nd_digits in (2, 1, 0):
        c = copy.deepcopy(d)
        changed = False
        for nd in c["world"]["nodes"]:
            new = [round(nd[1][0], nd_digits), round(nd[1][1], nd_digits)]
            changed |= new != nd[1]
            nd[1] = new
        for p in c["trace"]:
            new = [round(p[0], nd_digits), round(p[1], nd_digits)]
            changed |= new != p[:2]
            p[0], p[1] = new
        if changed and not c["world"].get("latlon"):
            yield "round", c


def _fix_fault_indices(c, i):
    f = c.get("faults") or {}
    if "aborts" in f:
        f["aborts"] = [dict(a, op=a["op"] - (1 if a["op"] > i else 0)) for a in f["aborts"] if a["op"] != i]
        if not f["aborts"]:
            del f["aborts"]
    if "restart_before" in f:
        f["restart_before"] = [x - (1 if x > i else 0) for x in f["restart_before"] if x != i and x - (1 if x > i else 0) > 0]
        if not f["restart_before"]:
            del f["restart_before"]


def minimise(test, doc, budget_s=60.0, max_evals=400):
    """Greedy delta debugging over the document; `test(doc)` is True when the same violation class
    is still reported."""
    t_end = time.time() + budget_s
    evals = 0
    improved = True
    while improved and time.time() < t_end and evals < max_evals:
        improved = False
        for _, cand in shrink_candidates(doc):
            if time.time() > t_end or evals >= max_evals:
                break
            evals += 1
            try:
                ok = test(cand)
            except Exception:
                ok = False
            if ok:
                doc = cand
                improved = True
                break
    return doc, evals


# ----------------------------------------------------------------------------- check
def rules_text(prop):
    return ("scenarios (road graph, trace, matcher configuration, operation history, fault schedule, backend) are "
            "drawn from one PRNG seeded with (VERIF_SEED, property, run index); a session is non-trivial when at "
            "least one observation was matched (World A) or at least one store mutation happened (World B); "
            "distinct = distinct session signatures (matcher family, state kind, backend, metric, non-emitting, "
            "width, second-order, operation-kind sequence, fault kinds that fired, restarts, complete/early-stop/"
            "empty, non-emitting depth on the best path, property-specific mode) among non-trivial sessions")


FAULT_KINDS_ABSENT = ["message loss/duplication/reordering (no peers)", "partitions (no peers)",
                      "lease/timeout expiry (no timers in the library)", "slow or stalled nodes",
                      "thread/task interleavings (single-threaded, synchronous)",
                      "torn or short writes below the SQLite API (no block-device model; SQLite's atomic commit is trusted)"]
REAL = ["SimpleMatcher/DistanceMatcher (real)", "InMemMap (real)", "SqliteMap + sqlite3 engine on real files (real)",
        "pickle dump/load (real)", "dist_euclidean / dist_latlon (real)"]
STUBS = ["wall clock (SimClock replaces module attribute `time`)", "log sink (capturing handler)",
         "stdout (captured)", "SimMap delegation layer in front of the real map backend"]


def do_check(prop, tier, count=None, jobs=None, seed=None, minimise_budget=45.0, write_evidence=True):
    t0 = time.time()
    seed = int(os.environ.get("VERIF_SEED", DEFAULT_SEED)) if seed is None else seed
    tier = tier or os.environ.get("VERIF_TIER") or "quick"
    if tier not in ("quick", "thorough"):
        tier = "quick"
    jobs = jobs or int(os.environ.get("VERIF_JOBS", str(min(NLANES, os.cpu_count() or 4))))
    os.makedirs(OUT, exist_ok=True)
    os.makedirs(os.path.join(OUT, "replays"), exist_ok=True)
    tmpdir = tempfile.mkdtemp(prefix="run-", dir=OUT)
    findings = load_findings()
    pool = hash_pool(seed)
    factor = THOROUGH_FACTOR if tier == "thorough" else 1
    deadline = 3000.0 if tier == "thorough" else 600.0
    try:
        n = count or QUICK[prop] * factor
        lanes = run_lanes(prop, seed, tier, n, pool, jobs, deadline, tmpdir)
        extra_viol = []
        hash_runs = 0
        if prop == "C10":
            nh = 4 if tier == "quick" else 16
            nchunks = max(1, NLANES // nh)
            cnt = count or QUICK["C10H"] * factor
            # every chunk of scenarios is executed by nh interpreters with different hash seeds
            reps_by_chunk = {}
            allres = []
            hs = []
            for c in range(nchunks):
                for h in range(nh):
                    hs.append(pool[h])
            # lane id = c*nh + h ; scenario index i belongs to chunk (i % nchunks)
            res = _run_hash_replicas(seed, tier, cnt, nchunks, nh, pool, jobs, deadline, tmpdir)
            for c in range(nchunks):
                v, nn = compare_replicas(res[c])
                hash_runs += nn
                for x in v:
                    x["sub"] = "C10H"
                extra_viol.extend(v)
                allres.extend(res[c])
            hash_lanes = allres
        else:
            hash_lanes = []
        # ---- aggregate
        stats, sigs, viols, samples, herr = {}, {}, [], [], []
        shapes = set()
        evaluated = 0
        from sim.gen import merge_stats
        for r in lanes:
            evaluated += r["evaluated"]
            merge_stats(stats, r["stats"])
            for k, v in r["sigs"].items():
                sigs[k] = sigs.get(k, 0) + v
            viols.extend(r["violations"])
            shapes.update(r.get("shapes", []))
            samples.extend(r["samples"][:1])
            herr.extend(r["harness_errors"])
        for r in hash_lanes:
            merge_stats(stats, {"hash_" + k: v for k, v in r["stats"].items() if k.startswith("fired_") or k == "ops"})
            for k, v in r["sigs"].items():
                sigs["H|" + k] = sigs.get("H|" + k, 0) + v
            for v in r["violations"]:       # e.g. the code under test raised while a scenario was set up
                v["evalprop"] = "C10H"
                viols.append(v)
            herr.extend(r["harness_errors"])
        if herr:
            say(json.dumps(herr[0])[:3000])
            harness_error("%d scenario(s) of %s failed inside the harness" % (len(herr), prop))
        # ---- classify
        by_class = {}
        for v in viols + extra_viol:
            by_class.setdefault(v["cls"], []).append(v)
        unlisted = []
        known_hits = {}
        for cls, vs in sorted(by_class.items()):
            f = known_for(prop, cls, findings)
            if f is not None:
                known_hits[cls] = (f, len(vs))
            else:
                unlisted.append((cls, vs))
        for cls, (f, nhit) in sorted(known_hits.items()):
            say("KNOWN-FINDING: property=%s %s -- %s (met %d times)" % (prop, cls, f.get("what", ""), nhit))
        exit_code = 0
        replays = []
        for cls, vs in unlisted[:4]:
            v = vs[0]
            path = _report(prop, cls, v, seed, hash_lanes, minimise_budget, pool, tier)
            replays.append(path)
            say("VIOLATION property=%s replay=%s class=%s count=%d detail=%s" % (prop, path, cls, len(vs), v["detail"][:300]))
            exit_code = 1
        for cls, vs in unlisted[4:]:
            say("VIOLATION-CLASS property=%s class=%s count=%d (not minimised)" % (prop, cls, len(vs)))
        wall = time.time() - t0
        total_eval = evaluated + hash_runs
        fired = {k[6:]: v for k, v in stats.items() if k.startswith("fired_")}
        probes = {k[6:]: v for k, v in stats.items() if k.startswith("probe_")}
        ev = {
            "property_id": prop, "tier": tier, "seed": seed, "level": "exploration",
            "coverage": {
                "evaluations": total_eval,
                "distinct_nontrivial": len(sigs),
                "distinct_final_states": len(shapes),
                "distinct_final_states_measure": "CRC of the final lattice shape (per column and layer: entries, live, postponed; expansion round) for matching sessions, of the final reference-store state (counts, index and transaction state, restarts) for store sessions",
                "rule": rules_text(prop),
                "samples": samples[:3],
                "simulated_runs": total_eval,
                "runs_per_hour": int(total_eval / max(wall, 1e-3) * 3600),
                "seeds_per_hour": int(total_eval / max(wall, 1e-3) * 3600),
                "simulated_seconds_covered": int(stats.get("sim_seconds", 0)),
                "operations_executed": stats.get("ops", 0),
                "map_calls_intercepted": stats.get("map_calls", 0),
                "faults_fired": fired,
                "hash_seeds": sorted(set(r["hashseed"] for r in lanes + hash_lanes)),
                "reach_probes": probes,
                "other_counters": {k: v for k, v in sorted(stats.items())
                                   if not k.startswith(("fired_", "probe_")) and k not in ("sim_seconds", "ops", "map_calls")},
                "violation_classes": {cls: len(vs) for cls, vs in by_class.items()},
                "known_findings_met": {cls: nhit for cls, (f, nhit) in known_hits.items()},
                "real_components": REAL, "stub_components": STUBS,
                "fault_kinds_not_present_in_codebase": FAULT_KINDS_ABSENT,
                "repo": lanes[0]["repo"] if lanes else None,
                "exhaustive": False,
            },
            "assumptions": ["the reference models encode the documented model of DESIGN.md appendix A",
                            "sqlite3's atomic commit and Python's pickle are trusted",
                            "worlds are small (<= 9 nodes, <= 8 observations, <= 8 operations; thorough tier 30 % up to 12 nodes and 10 observations), except for 3 % town-sized World-A sessions in both tiers (13-26 nodes, 10-24 observations)"],
            "wall_s": round(wall, 2),
            "violations": sum(len(vs) for _, vs in unlisted),
        }
        if prop == "C10":
            ev["coverage"]["hash_seed_comparisons"] = hash_runs
        if write_evidence:
            os.makedirs(os.path.join(VERIF, "evidence"), exist_ok=True)
            with open(os.path.join(VERIF, "evidence", prop + ".json"), "w") as f:
                json.dump(ev, f, indent=1, sort_keys=True)
        zero = [k for k in EXPECTED_PROBES.get(prop, []) if not probes.get(k)]
        if zero and tier == "thorough":
            say("WARNING reach probes at zero: %s" % ", ".join(zero))
        say("%s %s: %d sessions, %d distinct signatures, %d violation class(es), %.1fs" % (
            prop, tier, total_eval, len(sigs), len(unlisted), wall))
        return exit_code
    finally:
        shutil.rmtree(tmpdir, ignore_errors=True)


EXPECTED_PROBES = {"C03": ["c03_early_stop", "c03_empty_start", "c03_trailing_ne"],
                   "C07": ["c07_tie_extension", "c07_columns_pruned"],
                   "C04": ["c04_uturn", "c04_linked_move"]}


def _run_hash_replicas(seed, tier, count, nchunks, nh, pool, jobs, deadline, tmpdir):
    """chunk c, replica h: worker evaluates scenarios i with i % nchunks == c under hash seed pool[h]."""
    res = {}
    procs = []
    for c in range(nchunks):
        for h in range(nh):
            out = os.path.join(tmpdir, "C10H-c%d-h%d.json" % (c, h))
            err = open(out + ".err", "w")
            p = subprocess.Popen([PY, WORKER, "batch", "C10H", str(seed), tier, str(c), str(nchunks), str(count), out,
                                  str(deadline)], env=env_for(pool[h]), stdout=err, stderr=err, cwd=VERIF)
            procs.append((c, h, p, out, err))
    t_end = time.time() + deadline + 120
    for c, h, p, out, err in procs:
        try:
            rc = p.wait(timeout=max(1, t_end - time.time()))
        except subprocess.TimeoutExpired:
            p.kill()
            harness_error("hash replica timed out")
        err.close()
        if rc != 0 or not os.path.exists(out):
            harness_error("hash replica exited with %r\n%s" % (rc, open(err.name).read()[-2000:]))
        with open(out) as f:
            res.setdefault(c, []).append(json.load(f))
    return res


def _regen(prop, seed, index, tier="quick"):
    """Regenerate a scenario document from (seed, property, index) in a worker-free way."""
    import sim.bootstrap  # noqa: F401
    from sim.registry import REG
    from sim import gen
    import sim.props_a as _pa
    _pa.TIER = tier
    doc = REG[prop][0](gen.rng_for(seed, prop, index), tier)
    doc["index"] = index
    return doc


def _report(prop, cls, v, seed, hash_lanes, budget, pool, tier="quick"):
    """Minimise and write the replay file."""
    sub = v.get("sub", prop)
    if sub == "C10H":
        doc = _regen("C10H", seed, v["index"], tier)
        hs = v["hashseeds"]
        servers = [Server(h) for h in hs]

        def classes(d):
            from sim.twins import compare
            rs = [s.eval("C10H", d) for s in servers]
            if not all(r.get("ok") for r in rs):
                return []
            for a, b in zip(rs[0]["observations"], rs[1]["observations"]):
                if a["exc"] != b["exc"]:
                    return ["C10/hashseed/exception-differs"]
                c = compare(a["obs"], b["obs"], rel=0.0, abs_=0.0)
                if c != "equal":
                    return ["C10/hashseed/" + ("tie" if c.startswith("tie") else c)]
            return []
    else:
        doc = v["doc"]
        hs = [int(doc.get("hashseed", 0))] if str(doc.get("hashseed", "")).isdigit() else [0]
        servers = [Server(hs[0])]

        evalprop = v.get("evalprop", prop)

        def classes(d):
            r = servers[0].eval(evalprop, d)
            if not r.get("ok"):
                return []
            return [x["cls"] for x in r["violations"]]
    try:
        reproduced = cls in classes(doc)
        mini, evals = (doc, 0)
        if reproduced:
            mini, evals = minimise(lambda d: cls in classes(d), doc, budget_s=budget)
    finally:
        for s in servers:
            s.close()
    rep = {"property": prop, "sub": sub if sub == "C10H" else v.get("evalprop", prop), "class": cls, "detail": v["detail"], "seed": seed, "index": v.get("index"),
           "hashseeds": hs, "scenario": mini, "original_scenario": doc if mini is not doc else None,
           "minimiser_evaluations": evals, "reproduced_before_minimising": reproduced}
    name = "%s-%s-%s.json" % (prop, seed, hashlib.sha256(json.dumps(mini, sort_keys=True).encode()).hexdigest()[:10])
    path = os.path.join(OUT, "replays", name)
    with open(path, "w") as f:
        json.dump(rep, f, indent=1)
    return path


# ----------------------------------------------------------------------------- replay
def do_replay(path):
    with open(path) as f:
        rep = json.load(f)
    prop, sub, cls, doc, hs = rep["property"], rep.get("sub", rep["property"]), rep["class"], rep["scenario"], rep["hashseeds"]
    servers = [Server(h) for h in hs]
    try:
        if sub == "C10H":
            from sim.twins import compare
            rs = [s.eval("C10H", doc) for s in servers]
            got = []
            if all(r.get("ok") for r in rs):
                for a, b in zip(rs[0]["observations"], rs[1]["observations"]):
                    if a["exc"] != b["exc"]:
                        got = ["C10/hashseed/exception-differs"]
                        break
                    c = compare(a["obs"], b["obs"], rel=0.0, abs_=0.0)
                    if c != "equal":
                        got = ["C10/hashseed/" + ("tie" if c.startswith("tie") else c)]
                        break
            else:
                harness_error("replay failed inside the harness: %r" % (rs,))
        else:
            r = servers[0].eval(sub, doc)
            if not r.get("ok"):
                harness_error("replay failed inside the harness: %s" % r.get("error"))
            got = [x["cls"] for x in r["violations"]]
            for x in r["violations"]:
                say("  %s: %s" % (x["cls"], x["detail"][:400]))
    finally:
        for s in servers:
            s.close()
    if cls in got:
        say("VIOLATION property=%s replay=%s class=%s (reproduced)" % (prop, path, cls))
        return 1
    say("replay of %s did not reproduce class %s (got %r)" % (path, cls, got))
    return 3


# ----------------------------------------------------------------------------- main
def main():
    ap = argparse.ArgumentParser()
    sub = ap.add_subparsers(dest="cmd")
    c = sub.add_parser("check")
    c.add_argument("prop")
    c.add_argument("--tier", default=None)
    c.add_argument("--count", type=int, default=None)
    c.add_argument("--jobs", type=int, default=None)
    c.add_argument("--seed", type=int, default=None)
    c.add_argument("--no-evidence", action="store_true")
    r = sub.add_parser("replay")
    r.add_argument("path")
    s = sub.add_parser("selftest")
    s.add_argument("what")
    s.add_argument("--n", type=int, default=300)
    s.add_argument("--only", default=None)
    s.add_argument("--props", default=None)
    a = ap.parse_args()
    if a.cmd == "check":
        sys.exit(do_check(a.prop, a.tier, a.count, a.jobs, a.seed, write_evidence=not a.no_evidence))
    if a.cmd == "replay":
        sys.exit(do_replay(a.path))
    if a.cmd == "selftest":
        from sim import selftest
        sys.exit(selftest.main(a))
    ap.print_help()
    sys.exit(2)


if __name__ == "__main__":
    main()
