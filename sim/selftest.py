"""Self-tests of the machinery (not per-property checks).

  selftest setup         import-path assertion + a tiny determinism run (used as MANIFEST.setup_cmd)
  selftest determinism   same seeds twice in fresh interpreters, different worker counts, and under
                         another PYTHONHASHSEED pool for the generator
  selftest sensitivity   every patch in /verif/mutants and /verif/seeded must be caught by the
                         check(s) named in its meta file, on a scratch copy of /repo
"""
import json
import os
import shutil
import subprocess
import sys
import tempfile
import time

from . import driver as D


def _digests(prop, seed, n, pool, jobs, tmp, tag):
    os.environ["VERIF_DIGESTS"] = "1"
    try:
        lanes = D.run_lanes(prop, seed, "quick", n, pool, jobs, 600.0, tmp, tag=tag)
    finally:
        os.environ.pop("VERIF_DIGESTS", None)
    out = {}
    for r in lanes:
        for i, d in r.get("digests", {}).items():
            out[int(i)] = d
        if r["n_harness_errors"]:
            D.harness_error("harness errors in %s: %s" % (prop, r["harness_errors"][:1]))
    return out


def determinism(props, n, seed=None):
    seed = seed if seed is not None else int(os.environ.get("VERIF_SEED", D.DEFAULT_SEED))
    os.makedirs(D.OUT, exist_ok=True)
    tmp = tempfile.mkdtemp(prefix="det-", dir=D.OUT)
    bad = 0
    total = 0
    try:
        pool = D.hash_pool(seed)
        pool2 = D.hash_pool(seed + 1)
        for prop in props:
            a = _digests(prop, seed, n, pool, 16, tmp, "a")
            b = _digests(prop, seed, n, pool, 5, tmp, "b")
            c = _digests(prop, seed, n, pool2, 16, tmp, "c")
            total += len(a)
            diff_ab = [i for i in a if a[i] != b.get(i)]
            diff_doc = [i for i in a if a[i][0] != c.get(i, [None])[0]]
            diff_res = [i for i in a if a[i][1] != c.get(i, [None, None])[1]]
            D.say("determinism %s: %d scenarios; same seed twice (16 vs 5 workers): %d differ; "
                  "scenario documents under another hash-seed pool: %d differ; results under another pool: %d differ"
                  % (prop, len(a), len(diff_ab), len(diff_doc), len(diff_res)))
            if diff_ab or diff_doc:
                bad += 1
                D.say("  first differing indices: %r %r" % (diff_ab[:5], diff_doc[:5]))
    finally:
        shutil.rmtree(tmp, ignore_errors=True)
    if bad:
        D.say("HARNESS-ERROR determinism self-test failed for %d properties" % bad)
        return 2
    D.say("determinism self-test passed (%d scenarios x 3 runs)" % total)
    return 0


def setup():
    import sim.bootstrap as B
    D.say("code under test: %s" % B.REPO)
    return determinism(["C02", "C18"], 48)


def load_mutants(only=None):
    items = []
    base = os.path.join(D.VERIF, "mutants")
    if os.path.isdir(base):
        for name in sorted(os.listdir(base)):
            if name.endswith(".json"):
                meta = json.load(open(os.path.join(base, name)))
                meta["name"] = name[:-5]
                meta["patch"] = os.path.join(base, name[:-5] + ".diff")
                items.append(meta)
    base = os.path.join(D.VERIF, "seeded")
    if os.path.isdir(base):
        for name in sorted(os.listdir(base)):
            mp = os.path.join(base, name, "meta.json")
            if os.path.exists(mp):
                meta = json.load(open(mp))
                meta["name"] = "seeded/" + name
                meta["patch"] = os.path.join(base, name, "patch.diff")
                items.append(meta)
    if only:
        sel = set(only.split(","))
        items = [m for m in items if m["name"] in sel or m["name"].split("/")[-1] in sel]
    return items


def sensitivity(only=None, count=None):
    """Apply each patch to a scratch copy of /repo (under /dev/shm, removed afterwards) and require
    that the named check reports a violation within its quick budget."""
    items = load_mutants(only)
    repo = os.path.realpath(os.environ.get("VERIF_REPO", "/repo"))
    root = "/dev/shm" if os.path.isdir("/dev/shm") else tempfile.gettempdir()
    results = []
    missed = 0
    for m in items:
        scratch = tempfile.mkdtemp(prefix="lmm-mut-", dir=root)
        try:
            shutil.copytree(os.path.join(repo, "leuvenmapmatching"), os.path.join(scratch, "leuvenmapmatching"),
                            ignore=shutil.ignore_patterns("__pycache__"))
            p = subprocess.run(["patch", "-p1", "--no-backup-if-mismatch", "-i", m["patch"]], cwd=scratch,
                               capture_output=True, text=True)
            if p.returncode != 0:
                D.say("mutant %s: patch does not apply: %s" % (m["name"], p.stdout[-300:]))
                results.append((m["name"], "patch-failed"))
                missed += 1
                continue
            caught_by = []
            for prop in m["caught_by"]:
                env = dict(os.environ)
                env["VERIF_REPO"] = scratch
                cmd = [D.PY, os.path.join(D.HERE, "driver.py"), "check", prop, "--tier", "quick", "--no-evidence"]
                if count:
                    cmd += ["--count", str(count)]
                found = False
                for sd in [None] + list(m.get("seeds", [])):
                    if sd is not None:
                        env["VERIF_SEED"] = str(sd)
                    t0 = time.time()
                    r = subprocess.run(cmd, env=env, capture_output=True, text=True, cwd=D.VERIF)
                    v = [l for l in r.stdout.splitlines() if l.startswith("VIOLATION ")]
                    if r.returncode == 1 and v:
                        caught_by.append(prop)
                        cls = v[0].split("class=")[1].split()[0] if "class=" in v[0] else "?"
                        D.say("mutant %-42s caught by %s in %.0fs (%s)%s" % (m["name"], prop, time.time() - t0, cls,
                                                                              "" if sd is None else " with VERIF_SEED=%d" % sd))
                        found = True
                        break
                    elif r.returncode not in (0, 1):
                        D.say("mutant %-42s: check %s exit %d: %s" % (m["name"], prop, r.returncode, r.stdout[-300:]))
                        break
                if not found:
                    D.say("mutant %-42s NOT caught by %s" % (m["name"], prop))
            if not caught_by and m.get("not_caught_by_design"):
                D.say("mutant %-42s not caught, as recorded: %s" % (m["name"], m["not_caught_by_design"][:160]))
            elif not caught_by:
                missed += 1
            results.append((m["name"], caught_by))
        finally:
            shutil.rmtree(scratch, ignore_errors=True)
    D.say("sensitivity: %d patches, %d not caught" % (len(items), missed))
    return 1 if missed else 0


def main(a):
    if a.what == "setup":
        return setup()
    if a.what == "determinism":
        props = a.props.split(",") if a.props else D.PROPS
        return determinism(props, a.n)
    if a.what == "sensitivity":
        return sensitivity(a.only)
    D.say("unknown selftest")
    return 2
