"""World A: one client driving the real matcher against a real map backend through the SimMap
proxy, with a simulated clock, captured logger/stdout and injected faults.
Execution is a pure function of the scenario document (and the code under test)."""
import contextlib
import hashlib
import io
import json
import logging
import math
import os
import random
import shutil
import sqlite3
import tempfile
import zlib

from . import bootstrap  # noqa: F401  (must be first: selects the tree under test)
from .gen import derive

import leuvenmapmatching.matcher.base as lmm_base
import leuvenmapmatching.map.inmem as lmm_inmem
import leuvenmapmatching.map.sqlite as lmm_sqlite
from leuvenmapmatching.map.base import BaseMap
from leuvenmapmatching.map.inmem import InMemMap
from leuvenmapmatching.map.sqlite import SqliteMap
from leuvenmapmatching.matcher.simple import SimpleMatcher
from leuvenmapmatching.matcher.distance import DistanceMatcher

LOGGER = logging.getLogger("be.kuleuven.cs.dtai.mapmatching")
SCRATCH_ROOT = "/dev/shm" if os.path.isdir("/dev/shm") and os.access("/dev/shm", os.W_OK) else None


class InjectedFault(Exception):
    """Marker mixin for exceptions raised by the simulator."""


class InjectedOperationalError(sqlite3.OperationalError, InjectedFault):
    pass


class InjectedMemoryError(MemoryError, InjectedFault):
    pass


class InjectedInterrupt(KeyboardInterrupt, InjectedFault):
    pass


class StepBudgetExceeded(Exception):
    """Raised by the simulator when one public operation makes far more map calls than any terminating
    search over this world can need (bounded progress): turns a hang into a reportable outcome."""


def _tup(x):
    """JSON lists -> tuples (labels of edges, coordinates)."""
    if isinstance(x, list):
        return tuple(_tup(v) for v in x)
    return x


def crc(*parts):
    return zlib.crc32("|".join(repr(p) for p in parts).encode())


# ----------------------------------------------------------------------------- clock / logging
class SimClock:
    """Replaces the `time` module attribute inside the repository's modules."""

    def __init__(self, salt):
        self.rng = random.Random(derive("clock", salt))
        self.jumpy = salt is not None
        self.now = 1.6e9 if salt is None else self.rng.uniform(0, 2e9)
        self.reads = 0
        self.jumps = 0
        self.covered = 0.0

    def time(self):
        self.reads += 1
        if self.jumpy and self.rng.random() < 0.15:
            d = self.rng.uniform(-1e6, 1e6)
            self.jumps += 1
        else:
            d = self.rng.uniform(0, 0.01)
        self.covered += abs(d)
        self.now += d
        return self.now

    def sleep(self, _s):  # never used by the repository, but never sleep for real
        self.now += _s


class CaptureHandler(logging.Handler):
    def __init__(self):
        super().__init__(level=logging.DEBUG)
        self.records = 0
        self.chars = 0

    def emit(self, record):
        self.records += 1
        self.chars += len(record.getMessage())


@contextlib.contextmanager
def environment(clock, log_level):
    """Install the clock, the log capture and stdout capture; restore everything afterwards."""
    saved = (lmm_base.time, lmm_inmem.time, lmm_sqlite.time)
    lmm_base.time = lmm_inmem.time = lmm_sqlite.time = clock
    old_level, old_handlers, old_prop = LOGGER.level, list(LOGGER.handlers), LOGGER.propagate
    handler = CaptureHandler()
    LOGGER.handlers = [handler]
    LOGGER.propagate = False
    LOGGER.setLevel(getattr(logging, log_level))
    out = io.StringIO()
    try:
        with contextlib.redirect_stdout(out):
            yield handler
    finally:
        lmm_base.time, lmm_inmem.time, lmm_sqlite.time = saved
        LOGGER.handlers = old_handlers
        LOGGER.propagate = old_prop
        LOGGER.setLevel(old_level)


# ----------------------------------------------------------------------------- backends
REJECTED_CALLS = [0]      # build calls the map refused (fault kind rejected_call), read and reset by session_stats


def build_backend(world, backend, scratch, name="m"):
    """Build the real map backend for a world document."""
    latlon = bool(world.get("latlon"))
    nodes = [(l, (p[0], p[1]), list(nb)) for l, p, nb in world["nodes"]]
    late = set(_tup(e) for e in world.get("late_edges", []))
    if late:
        # roads that are only added to the live map later (operation "grow")
        nodes = [(l, p, [b for b in nb if (l, b) not in late]) for l, p, nb in nodes]
    linked = {}
    for e, fs in world.get("linked", []):
        linked.setdefault(_tup(e), []).extend(_tup(f) for f in fs)
    if backend == "scan":
        return ScanMap(name, nodes, latlon)
    if backend in ("inmem", "inmem_api", "pickle"):
        if backend == "inmem_api":
            m = InMemMap(name, use_latlon=latlon, use_rtree=False, index_edges=False,
                         linked_edges=linked or None, dir=scratch)
            # calls the map refuses: a road to a node that has not been declared yet (world["rejected"]).  The map
            # raises and must be left as it was; the node is declared afterwards and never gets that road.
            full = {l: set(nb) for l, _, nb in world["nodes"]}
            rej = [_tup(e) for e in world.get("rejected", [])]
            rej = [(a, b) for a, b in rej if a in full and b in full and a != b and b not in full[a]]
            late_nodes = set(b for _, b in rej)
            for attempt in (0, 1):
                accepted = False
                for l, p, _ in nodes:
                    if l not in late_nodes or attempt:
                        m.add_node(l, p)
                if not attempt:
                    for a, b in rej:
                        if a not in late_nodes:
                            try:
                                m.add_edge(a, b)
                                accepted = True      # a tree that accepts dangling roads: not modelled, build again without
                            except Exception:
                                REJECTED_CALLS[0] += 1
                    for l, p, _ in nodes:
                        if l in late_nodes:
                            m.add_node(l, p)
                if not accepted:
                    break
                m = InMemMap(name, use_latlon=latlon, use_rtree=False, index_edges=False,
                             linked_edges=linked or None, dir=scratch)
            for l, _, nb in nodes:
                for b in nb:
                    m.add_edge(l, b)
        else:
            graph = {l: (p, list(nb)) for l, p, nb in nodes}
            m = InMemMap(name, use_latlon=latlon, use_rtree=False, index_edges=False, graph=graph,
                         linked_edges=linked or None, dir=scratch)
        if backend == "pickle":
            m.dump()
            m = InMemMap.from_pickle(os.path.join(scratch, name + ".pkl"))
        return m
    if backend in ("sqlite", "sqlite_bulk"):
        m = SqliteMap(name, use_latlon=latlon, dir=scratch)
        edges = []
        seen = set()
        for l, _, nb in nodes:
            for b in nb:
                if (l, b) not in seen:   # the edges table has one row per directed edge
                    seen.add((l, b))
                    edges.append((l, b))
        if backend == "sqlite_bulk":
            m.add_nodes([(l, p) for l, p, _ in nodes])
            m.add_edges(edges)
        else:
            for l, p, _ in nodes:
                m.add_node(l, p, no_commit=True)
            for a, b in edges:
                m.add_edge(a, b, no_commit=True)
            m.db.commit()
        if linked:
            c = m.db.cursor()
            for e, fs in linked.items():
                for f in fs:
                    c.execute("INSERT INTO close_edges(id1, id2) VALUES (?, ?)", (hash(e), hash(f)))
            m.db.commit()
        return m
    raise ValueError(backend)


class ScanMap(BaseMap):
    """A user-written map as the documentation invites ("write your own map class"): a plain dictionary,
    spatial queries by full scan with the metric functions BaseMap binds, and the inherited default
    `BaseMap.edges_nbrto`.  Its spatial queries are complete, unlike InMemMap's prefiltered edge query."""

    def __init__(self, name, nodes, use_latlon):
        super().__init__(name, use_latlon=use_latlon)
        self.loc = {l: p for l, p, _ in nodes}
        self.nb = {l: list(nb) for l, _, nb in nodes}

    def bb(self):
        ys, xs = zip(*self.loc.values())
        return min(ys), min(xs), max(ys), max(xs)

    def labels(self):
        return list(self.loc)

    def size(self):
        return len(self.loc)

    def node_coordinates(self, node_key):
        return self.loc[node_key]

    def all_nodes(self, bb=None):
        return [(l, p) for l, p in self.loc.items()]

    def all_edges(self, bb=None):
        return [(a, self.loc[a], b, self.loc[b]) for a, nb in self.nb.items() for b in nb if b in self.loc]

    def nodes_closeto(self, loc, max_dist=None, max_elmt=None):
        res = sorted((self.distance(loc, p), l, p) for l, p in self.loc.items())
        res = [r for r in res if max_dist is None or r[0] < max_dist]
        return res[:max_elmt] if max_elmt is not None else res

    def edges_closeto(self, loc, max_dist=None, max_elmt=None):
        res = []
        for a, nb in self.nb.items():
            for b in nb:
                if b == a or b not in self.loc:
                    continue
                d, pi, ti = self.distance_point_to_segment(loc, self.loc[a], self.loc[b])
                if max_dist is None or d < max_dist:
                    res.append((d, a, self.loc[a], b, self.loc[b], pi, ti))
        res.sort(key=lambda r: (r[0], repr(r[1]), repr(r[3])))
        return res[:max_elmt] if max_elmt is not None else res

    def nodes_nbrto(self, node):
        return [(b, self.loc[b]) for b in self.nb.get(node, []) if b in self.loc]


def reopen_backend(m, backend, scratch, name="m"):
    if isinstance(m, ScanMap):
        return m
    if isinstance(m, SqliteMap):
        m.db.close()
        return SqliteMap.from_file(os.path.join(scratch, name + ".sqlite"))
    m.dump()
    return InMemMap.from_pickle(os.path.join(scratch, name + ".pkl"))


def close_backend(m):
    if isinstance(m, SqliteMap):
        try:
            m.db.close()
        except Exception:
            pass


# ----------------------------------------------------------------------------- the proxy
class SimMap(BaseMap):
    """Implements the BaseMap interface by delegation to a real backend; the seam where the
    simulator records calls and injects faults."""

    def __init__(self, backend, faults):
        self.backend = backend
        self.name = "sim:" + str(getattr(backend, "name", ""))
        self.faults = faults or {}
        self.calls = 0            # calls within the current operation
        self.total_calls = 0
        self.log = []             # (op, call, method, crc(arg), crc(answer), fault)
        self.op_index = -1
        self.armed = None         # (call index, exc kind)
        self.fired = {"dup": 0, "shuffle": 0, "abort": 0}
        self.last_injected = None
        self.start_query = None   # recorded answer of the first closeto query of a non-expanding match
        self.call_budget = None   # per-operation bound on map calls (set by the session)
        self.digest = hashlib.sha256()
        self._bind()

    def _bind(self):
        b = self.backend
        self.distance = b.distance
        self.distance_point_to_segment = b.distance_point_to_segment
        self.distance_segment_to_segment = b.distance_segment_to_segment
        self.box_around_point = b.box_around_point
        self.lines_parallel = b.lines_parallel

    def rebind(self, backend):
        self.backend = backend
        self._bind()

    @property
    def use_latlon(self):
        return self.backend.use_latlon

    def begin_op(self, i, armed=None):
        self.op_index = i
        self.calls = 0
        self.armed = armed
        self.last_injected = None
        self.start_query = None

    # -- the recording / faulting wrapper
    def _call(self, method, arg, fn, perturb):
        k = self.calls
        self.calls += 1
        self.total_calls += 1
        if self.call_budget is not None and self.calls > self.call_budget:
            raise StepBudgetExceeded("operation %d made more than %d map calls" % (self.op_index, self.call_budget))
        if self.armed is not None and self.armed[0] == k:
            kind = self.armed[1]
            self.armed = None
            self.fired["abort"] += 1
            exc = {"operr": InjectedOperationalError("disk I/O error"),
                   "mem": InjectedMemoryError(),
                   "kbd": InjectedInterrupt()}[kind]
            self.last_injected = exc
            self._rec(k, method, arg, None, "abort:" + kind)
            raise exc
        ans = fn()
        fault = ""
        if perturb and isinstance(ans, list) and len(ans) > 0:
            if "dup" in self.faults:
                r = random.Random(crc(self.faults["dup"], method, arg))
                if r.random() < 0.5:
                    j = r.randrange(len(ans))
                    ans = ans[:j + 1] + [ans[j]] + ans[j + 1:]
                    self.fired["dup"] += 1
                    fault += "dup"
            if "shuffle" in self.faults and len(ans) > 1:
                r = random.Random(crc(self.faults["shuffle"], self.total_calls))
                ans = list(ans)
                r.shuffle(ans)
                self.fired["shuffle"] += 1
                fault += "shuffle"
        self._rec(k, method, arg, ans, fault)
        return ans

    def _rec(self, k, method, arg, ans, fault):
        rec = (self.op_index, k, method, crc(arg), crc(ans), fault)
        self.log.append(rec)
        self.digest.update(repr(rec).encode())

    # -- BaseMap interface used by matchers
    def nodes_nbrto(self, node):
        return self._call("nodes_nbrto", node, lambda: self.backend.nodes_nbrto(node), True)

    def edges_nbrto(self, edge):
        return self._call("edges_nbrto", edge, lambda: self.backend.edges_nbrto(edge), True)

    def nodes_closeto(self, loc, max_dist=None, max_elmt=None):
        ans = self._call("nodes_closeto", (tuple(loc), max_dist, max_elmt),
                         lambda: self.backend.nodes_closeto(loc, max_dist=max_dist, max_elmt=max_elmt), False)
        if self.start_query is None:      # the first spatial query of the operation
            self.start_query = ("nodes", tuple(loc), max_dist, list(ans))
        return ans

    def edges_closeto(self, loc, max_dist=None, max_elmt=None):
        ans = self._call("edges_closeto", (tuple(loc), max_dist, max_elmt),
                         lambda: self.backend.edges_closeto(loc, max_dist=max_dist, max_elmt=max_elmt), False)
        if self.start_query is None:      # the first spatial query of the operation
            self.start_query = ("edges", tuple(loc), max_dist, list(ans))
        return ans

    # -- the rest of the interface (visualisation etc.), plain delegation
    def bb(self):
        return self.backend.bb()

    def labels(self):
        return self.backend.labels()

    def size(self):
        return self.backend.size()

    def node_coordinates(self, node_key):
        return self.backend.node_coordinates(node_key)

    def all_nodes(self, bb=None):
        return self.backend.all_nodes(bb=bb)

    def all_edges(self, bb=None):
        return self.backend.all_edges(bb=bb)


# ----------------------------------------------------------------------------- observation
def live_layer0(matcher, idx):
    col = matcher.lattice.get(idx) if matcher.lattice else None
    if col is None:
        return []
    return [m for m in col.values(0) if not m.stop]


def observe(matcher, ret):
    """Canonical observation after an operation (public state only)."""
    states, idx = ret
    obs = {"idx": idx, "empty": not states, "none": states is None,
           "states": None if states is None else [_jsonable(s) for s in states]}
    lb = matcher.lattice_best or []
    obs["path"] = [[_jsonable(m.shortkey), m.obs, m.obs_ne] for m in lb]
    obs["path_lp"] = [m.logprob for m in lb]
    if states:
        live = live_layer0(matcher, idx)
        obs["bestE"] = max((m.logprob for m in live), default=None)
        last_e = None
        for m in lb:
            if m.obs_ne == 0:
                last_e = m
        obs["tail"] = [lb[-1].obs, lb[-1].obs_ne, lb[-1].logprob] if lb else None
        obs["tailE"] = last_e.logprob if last_e is not None else None
    else:
        obs["bestE"] = None
        obs["tail"] = None
        obs["tailE"] = None
    obs["early_stop_idx"] = matcher.early_stop_idx
    return obs


def _jsonable(s):
    if isinstance(s, tuple):
        return [_jsonable(v) for v in s]
    return s


# ----------------------------------------------------------------------------- session
class OpOutcome:
    __slots__ = ("index", "op", "kind", "ret", "exc", "injected", "obs", "calls", "judged", "note")

    def __init__(self, index, op):
        self.index = index
        self.op = op
        self.kind = op["op"]
        self.ret = None
        self.exc = None
        self.injected = False
        self.obs = None
        self.calls = 0
        self.judged = True
        self.note = ""


def make_matcher(cfg, simmap, width_override="cfg"):
    kw = {}
    for k in ("obs_noise", "obs_noise_ne", "max_dist", "max_dist_init", "min_prob_norm",
              "non_emitting_states", "max_lattice_width", "only_edges", "avoid_goingback",
              "non_emitting_length_factor", "dist_noise", "dist_noise_ne", "restrained_ne"):
        if k in cfg:
            kw[k] = cfg[k]
    if width_override != "cfg":
        kw["max_lattice_width"] = width_override
    fam = cfg["family"]
    if fam == "simple":
        for k in ("dist_noise", "dist_noise_ne", "restrained_ne"):
            kw.pop(k, None)
        m = SimpleMatcher(simmap, **kw)
    elif fam == "distance":
        m = DistanceMatcher(simmap, **kw)
    else:
        raise ValueError(fam)
    if "ne_maxnb" in cfg:
        m.non_emitting_states_maxnb = cfg["ne_maxnb"]
    return m


class Session:
    """Executes doc['ops'] one by one.  `on_op(session, outcome)` is called after every
    operation, while the matcher still holds exactly the state that operation left."""

    def __init__(self, doc, on_op=None, log_level=None):
        self.doc = doc
        self.on_op = on_op
        self.world = doc["world"]
        self.cfg = doc["cfg"]
        self.trace = [tuple(p) for p in doc["trace"]]
        self.trace2 = [tuple(p) for p in doc.get("trace2") or []]
        self.cur_trace = self.trace      # the trace the matcher currently holds
        self.faults = doc.get("faults") or {}
        self.backend_kind = doc.get("backend", "inmem")
        self.log_level = log_level or doc.get("log", "ERROR")
        self.outcomes = []
        self.matcher = None
        self.simmap = None
        self.backend = None
        self.scratch = None
        self.clock = None
        self.k = None            # current trace prefix length
        self.unique = False
        self.jumped = False      # continue_with_distance used
        self.restarts = 0
        self.grown = False
        self.misuse = 0
        self.log_records = 0
        self.interfered = {}     # fault kinds other_matcher / refused_call that fired

    # -- life cycle
    def run(self):
        self.scratch = tempfile.mkdtemp(prefix="lmm-sim-", dir=SCRATCH_ROOT)
        self.clock = SimClock(self.faults.get("clock"))
        try:
            with environment(self.clock, self.log_level) as handler:
                self.backend = build_backend(self.world, self.backend_kind, self.scratch)
                self.simmap = SimMap(self.backend, self.faults)
                # bounded progress: per observation a terminating search needs at most one neighbour query per
                # live state for the emitting step and two per state and non-emitting depth; a chain of
                # non-emitting states cannot be deeper than the number of nodes (visited-node rule) or 100
                n_nodes = len(self.world["nodes"])
                n_states = n_nodes + sum(len(nb) for _, _, nb in self.world["nodes"])
                n_obs = max(len(self.trace), len(self.trace2), 1)
                self.simmap.call_budget = 4 * n_obs * (n_states + 1) * (2 * min(n_nodes + 1, 100) + 3) + 1000
                for i, op in enumerate(self.doc["ops"]):
                    self._do(i, op)
                self.log_records = handler.records
        finally:
            if self.backend is not None:
                close_backend(self.backend)
            shutil.rmtree(self.scratch, ignore_errors=True)
        return self

    def digest(self):
        h = hashlib.sha256()
        h.update(self.simmap.digest.digest())
        for o in self.outcomes:
            h.update(json.dumps([o.index, o.kind, o.obs, type(o.exc).__name__ if o.exc else None,
                                 o.calls], sort_keys=True, default=repr).encode())
        return h.hexdigest()

    # -- operations
    def _new_matcher(self, width="cfg"):
        self.matcher = make_matcher(self.cfg, self.simmap, width)
        self.jumped = False

    def _interference(self, i):
        """Things that happen between two operations of the client and that the matcher must not be affected by:
        (fault kind other_matcher) another matcher object of the same family, with other parameters, matches a trace
        on the same map object; (fault kind refused_call) the client asks the matcher to expand for a trace that is
        not an extension of the one it holds - the matcher refuses with an exception - and carries on."""
        m = self.matcher
        om = (self.faults.get("other_matcher_before") or {}).get(str(i))
        if om is not None and self.backend is not None:
            cfg2 = dict(self.cfg)
            unit = float(self.world.get("unit", 1.0))
            cfg2["obs_noise"] = 0.37 * float(self.cfg["obs_noise"]) + 0.01 * unit
            cfg2["max_dist"] = (20.0 if self.world.get("latlon") else 1.0) * 0.02 * unit
            cfg2.pop("max_dist_init", None)
            cfg2["non_emitting_states"] = not self.cfg.get("non_emitting_states", True)
            cfg2.pop("max_lattice_width", None)
            other = make_matcher(cfg2, self.backend)
            tr = self.trace2 or self.trace
            try:
                other.match(list(tr[:max(1, min(len(tr), int(om)))]))
            except Exception:
                pass      # the other client's business
            self.interfered["other_matcher"] = self.interfered.get("other_matcher", 0) + 1
        rf = (self.faults.get("refused_before") or {}).get(str(i))
        if rf is not None and m is not None and self.k and getattr(m, "path", None) and m.lattice:
            cur = list(self.cur_trace[:self.k])
            if rf == "prefix" and self.k >= 2:
                bad = cur[:-1]
            else:
                p0 = cur[0]
                bad = [tuple([p0[0] + 1e-3 * (1 + abs(p0[0])), p0[1]] + list(p0[2:]))] + cur[1:] + [cur[-1]]
            try:
                m.match(bad, unique=self.unique, expand=True)
            except Exception:
                self.interfered["refused_call"] = self.interfered.get("refused_call", 0) + 1
            else:
                # a tree that accepts such a call is not modelled: start afresh with what the client holds
                m.match(cur, unique=self.unique)
                self.jumped = False

    def _current_width(self):
        return self.matcher.max_lattice_width if self.matcher is not None else self.cfg.get("max_lattice_width")

    def _do(self, i, op):
        kind = op["op"]
        if kind == "grow":
            # the user adds roads to the map object between two matching calls (not an operation of the matcher)
            for a, b in self.world.get("late_edges", []):
                self.backend.add_edge(a, b)
            self.grown = True
            return
        if i in (self.faults.get("restart_before") or []) and self.backend_kind in ("sqlite", "sqlite_bulk", "pickle", "inmem"):
            # new user session: backend reopened from disk, new matcher with the current width
            w = self._current_width()
            self.backend = reopen_backend(self.backend, self.backend_kind, self.scratch)
            self.simmap.rebind(self.backend)
            had = self.matcher is not None
            self._new_matcher(w if had else "cfg")
            self.restarts += 1
            if kind in ("extend", "widen", "cwd", "rematch"):
                # the new matcher first has to reach the state the old one had: one-shot match of the
                # current prefix (not judged by history oracles as an op of its own)
                if self.k is not None:
                    self._exec(i, {"op": "match", "k": self.k, "unique": self.unique, "implicit": True}, None)
        armed = None
        for a in self.faults.get("aborts") or []:
            if a["op"] == i:
                armed = (a["call"], a["exc"])
        out = self._exec(i, op, armed)
        if out.injected:
            # the only recovery the API offers: a non-expanding match of the current trace on the same object
            k = op.get("k", self.k) if kind in ("match", "extend", "rematch") else self.k
            if k is not None:
                self._exec(i, {"op": "retry", "k": k, "unique": op.get("unique", self.unique)}, None)

    def _exec(self, i, op, armed):
        kind = op["op"]
        out = OpOutcome(i, op)
        if self.matcher is None:
            try:
                self._new_matcher()
            except Exception as exc:
                # a valid configuration the constructor refuses: the operation that needed the matcher did not succeed
                import traceback
                if not any("leuvenmapmatching" in fr.filename for fr in traceback.extract_tb(exc.__traceback__)):
                    raise
                out.exc = exc
                out.note = "constructor-raised"
                self.outcomes.append(out)
                if self.on_op is not None:
                    self.on_op(self, out)
                return out
        m = self.matcher
        self._interference(i)
        self.simmap.begin_op(i, armed)
        unique = bool(op.get("unique", False))
        try:
            if kind in ("match", "rematch", "retry", "fresh"):
                if kind == "fresh":
                    self._new_matcher(self._current_width())
                    m = self.matcher
                k = op["k"]
                if kind in ("match", "fresh"):
                    self.cur_trace = self.trace2 if op.get("alt") else self.trace
                out.ret = m.match(list(self.cur_trace[:k]), unique=unique)
                self.k, self.unique = k, unique
                self.jumped = False
            elif kind == "extend":
                k = op["k"]
                out.ret = m.match(list(self.cur_trace[:k]), unique=unique, expand=True)
                self.k, self.unique = k, unique
            elif kind == "widen":
                out.ret = m.increase_max_lattice_width(op["w"], unique=unique)
                self.unique = unique
            elif kind == "cwd":
                self.jumped = True
                m.continue_with_distance(k=op.get("kbest", 2), nb_obs=op.get("nb_obs", 2),
                                         max_dist=op.get("max_dist"))
                out.ret = m.match(list(self.cur_trace[:self.k]), unique=unique, expand=True)
            else:
                raise ValueError(kind)
        except BaseException as exc:  # noqa: B902 - KeyboardInterrupt is an injected fault kind
            if not isinstance(exc, Exception) and not isinstance(exc, InjectedFault):
                raise
            out.exc = exc
            out.injected = exc is self.simmap.last_injected
        out.calls = self.simmap.calls
        if out.ret is not None and out.exc is None:
            try:
                out.obs = observe(m, out.ret)
            except Exception as exc:  # observation itself must not hide a broken state
                out.exc = exc
                out.note = "observe-failed"
        self.outcomes.append(out)
        if self.on_op is not None:
            self.on_op(self, out)
        return out


def run_session(doc, on_op=None, log_level=None):
    return Session(doc, on_op=on_op, log_level=log_level).run()
