"""Scenario generation.  A scenario is a plain JSON document; executing it is a pure function of
the document and the code under test.  Everything random is drawn here from one PRNG that is
seeded from (VERIF_SEED, property, run index)."""
import hashlib
import math
import random

LABEL_POOL = "ABCDEFGHIJKLMNOPQRSTUVWXYZ"


def hyphen_labels(n):
    """String labels that contain the character the repository uses when it prints an edge ('a', 'a-a', 'a-a-a', ...):
    different label pairs then print identically, e.g. ('a', 'a-a') and ('a-a', 'a').  Labels are names, any
    string is a valid one (D20)."""
    return ["-".join("a" * k) for k in range(1, n + 1)]


def derive(*parts):
    h = hashlib.sha256("|".join(str(p) for p in parts).encode()).digest()
    return int.from_bytes(h[:8], "big")


def merge_stats(total, st):
    for k, v in st.items():
        if k.startswith("max_"):
            total[k] = max(total.get(k, 0), v)
        else:
            total[k] = total.get(k, 0) + v


def rng_for(seed, prop, i):
    return random.Random(derive("lmm-sim", seed, prop, i))


def _r(x, nd=6):
    return round(x, nd)


# ----------------------------------------------------------------------------- worlds
def gen_world(rng, shape=None, n=None, labels=None, directed_p=0.25, selfnbr_p=0.08,
              linked_p=0.0, zero_len_p=0.0, unit=1.0, offset=(0.0, 0.0), latlon=False):
    """Return {'latlon', 'nodes': [[label,[y,x],[nbrs]]...], 'linked': [[[a,b],[[c,d]..]]..]}.
    Planar coordinates are in 'unit' (typical road length 1-3 units)."""
    if shape is None:
        shape = rng.choice(["generic", "generic", "generic", "grid", "grid", "line", "ring"])
    if n is None:
        n = rng.randint(3, 8)
    pts = []
    if shape == "generic":
        side = 1.6 * math.sqrt(n) + 1
        tries = 0
        while len(pts) < n and tries < 1000:
            tries += 1
            p = (_r(rng.uniform(0, side), 3), _r(rng.uniform(0, side), 3))
            if all(math.hypot(p[0] - q[0], p[1] - q[1]) > 0.5 for q in pts):
                pts.append(p)
        n = len(pts)
    elif shape == "grid":
        k = max(2, int(math.ceil(math.sqrt(n))) + rng.randint(0, 1))
        cells = [(float(a), float(b)) for a in range(k) for b in range(k)]
        rng.shuffle(cells)
        pts = cells[:n]
    elif shape == "line":
        # collinear nodes (axis-parallel or diagonal)
        dy, dx = rng.choice([(0.0, 1.0), (1.0, 0.0), (1.0, 1.0), (0.5, 1.5)])
        pos = sorted(rng.sample(range(0, 3 * n), n))
        pts = [(dy * t, dx * t) for t in pos]
    elif shape == "ring":
        rad = n / 3.0 + 0.5
        ph = rng.uniform(0, 6.28)
        pts = [(_r(rad * math.sin(ph + 2 * math.pi * i / n), 3), _r(rad * math.cos(ph + 2 * math.pi * i / n), 3))
               for i in range(n)]
    else:
        raise ValueError(shape)
    if zero_len_p and rng.random() < zero_len_p and n >= 3:
        i, j = rng.sample(range(n), 2)
        pts[j] = pts[i]
    # undirected skeleton
    und = set()
    order = list(range(n))
    if shape in ("line", "ring"):
        for i in range(n - 1):
            und.add((i, i + 1))
        if shape == "ring":
            und.add((0, n - 1))
        for _ in range(rng.randint(0, 2)):
            a, b = rng.sample(range(n), 2)
            und.add((min(a, b), max(a, b)))
    else:
        rng.shuffle(order)
        for idx in range(1, n):
            a = order[idx]
            cands = sorted(order[:idx], key=lambda b: (math.hypot(pts[a][0] - pts[b][0], pts[a][1] - pts[b][1]), b))
            b = cands[0] if rng.random() < 0.7 else rng.choice(cands[:3])
            und.add((min(a, b), max(a, b)))
        extra = rng.randint(0, n)
        for _ in range(extra):
            a = rng.randrange(n)
            cands = sorted((b for b in range(n) if b != a),
                           key=lambda b: (math.hypot(pts[a][0] - pts[b][0], pts[a][1] - pts[b][1]), b))
            b = rng.choice(cands[:3])
            und.add((min(a, b), max(a, b)))
    nbrs = {i: [] for i in range(n)}
    for a, b in sorted(und):
        if rng.random() < directed_p:
            if rng.random() < 0.5:
                a, b = b, a
            nbrs[a].append(b)
        else:
            nbrs[a].append(b)
            nbrs[b].append(a)
    for i in range(n):
        rng.shuffle(nbrs[i])
        if rng.random() < selfnbr_p:
            nbrs[i].insert(rng.randint(0, len(nbrs[i])), i)
    # labels
    if labels is None:
        labels = rng.choice(["int", "int", "str", "bigint"])
    if labels == "int":
        names = list(range(n))
        rng.shuffle(names)
    elif labels == "bigint":
        names = rng.sample(range(1, 10 ** 9), n)
    elif labels == "str":
        r_ = rng.random()
        if r_ < 0.42:
            names = list(LABEL_POOL[:n])
        elif r_ < 0.84:
            names = ["n%d" % v for v in rng.sample(range(100), n)]
        else:
            names = hyphen_labels(n)
        rng.shuffle(names)
    else:
        raise ValueError(labels)
    list_order = list(range(n))
    rng.shuffle(list_order)
    oy, ox = offset
    nodes = [[names[i], [pts[i][0] * unit + oy, pts[i][1] * unit + ox], [names[j] for j in nbrs[i]]]
             for i in list_order]
    linked = []
    if linked_p and rng.random() < linked_p:
        edges = [(names[a], names[b]) for a in range(n) for b in nbrs[a] if a != b]
        rng.shuffle(edges)
        if rng.random() < 0.6:
            # prefer edges whose end node is also the end node of another edge (only one of them linked)
            shared = [e for e in edges if any(f[1] == e[1] and f[0] != e[0] for f in edges)]
            edges = shared + [e for e in edges if e not in shared]
        for e in edges[:rng.choice([1, 2])]:
            others = [f for f in edges if f != e and len({e[0], e[1], f[0], f[1]}) == 4]
            if others:
                f = rng.choice(others)
                linked.append([list(e), [list(f)]])
                linked.append([list(f), [list(e)]])
    if shape == "grid" and unit == 1.0 and offset == (0.0, 0.0) and rng.random() < 0.25:
        # plain Python ints as coordinates (what a hand-written test map looks like)
        nodes = [[l, [int(p[0]), int(p[1])], nb] for l, p, nb in nodes]
    world = {"latlon": latlon, "nodes": nodes, "linked": linked, "shape": shape, "unit": unit}
    return world


def world_index(world):
    loc = {}
    nb = {}
    for label, p, nbrs in world["nodes"]:
        loc[label] = (p[0], p[1])
        nb[label] = list(nbrs)
    return loc, nb


def gen_trace(rng, world, nobs=None, noise=None, spacing=None, perturb=True, exact_p=0.1, half_grid=False,
              sparse=False, outlier_p=0.12):
    """A noisy sample of a walk through the directed graph (planar units)."""
    loc, nb = world_index(world)
    unit = world.get("unit", 1.0)
    labels = [l for l, _, _ in world["nodes"]]
    if nobs is None:
        nobs = rng.choice([1, 2, 2, 3, 3, 4, 4, 5, 5, 6, 7, 8])
    if noise is None:
        noise = rng.choice([0.0, 0.05, 0.15, 0.3, 0.5]) * unit
    if sparse:
        # observations several roads apart: the walk in between needs non-emitting states
        if spacing is None:
            spacing = rng.choice([2.5, 3.5, 5.0, 7.0]) * unit
        if noise is None or noise > 0.3 * unit:
            noise = rng.choice([0.0, 0.05, 0.15]) * unit
    if spacing is None:
        spacing = rng.choice([0.3, 0.6, 1.0, 1.5, 2.5, 4.0]) * unit
    cur = rng.choice(labels)
    poly = [loc[cur]]
    prev = None
    for _ in range(3 * nobs + 3):
        cands = [x for x in nb[cur] if x != cur and x in loc]
        if not cands:
            break
        fw = [x for x in cands if x != prev]
        nxt = rng.choice(fw) if fw and rng.random() < 0.9 else rng.choice(cands)
        prev, cur = cur, nxt
        poly.append(loc[cur])
    # sample along polyline
    pts = []
    seglen = [math.hypot(a[0] - b[0], a[1] - b[1]) for a, b in zip(poly, poly[1:])]
    total = sum(seglen)
    s = rng.uniform(0, 0.8) * spacing
    while len(pts) < nobs:
        if total <= 0 or s > total:
            s_eff = total
        else:
            s_eff = s
        acc = 0.0
        p = poly[-1]
        for (a, b), l in zip(zip(poly, poly[1:]), seglen):
            if acc + l >= s_eff and l > 0:
                t = (s_eff - acc) / l
                p = (a[0] + t * (b[0] - a[0]), a[1] + t * (b[1] - a[1]))
                break
            acc += l
        pts.append(p)
        s += spacing * rng.uniform(0.6, 1.4)
    out = []
    for p in pts:
        if rng.random() < exact_p:
            q = (p[0], p[1])  # exactly on the road
        else:
            q = (p[0] + rng.gauss(0, noise), p[1] + rng.gauss(0, noise))
        if half_grid:
            q = (round(q[0] * 2 / unit) * unit / 2, round(q[1] * 2 / unit) * unit / 2)
        else:
            q = (_r(q[0] / unit, 4) * unit, _r(q[1] / unit, 4) * unit)
        out.append([q[0], q[1]])
    if perturb and len(out) >= 2:
        r = rng.random()
        i = rng.randrange(len(out))
        if r < outlier_p:      # outlier
            out[i] = [_r(out[i][0] / unit + rng.choice([-1, 1]) * rng.uniform(4, 15), 4) * unit,
                      _r(out[i][1] / unit + rng.choice([-1, 1]) * rng.uniform(4, 15), 4) * unit]
        elif r < outlier_p + 0.08:     # repeat
            out.insert(i, list(out[i]))
        elif r < outlier_p + 0.16:    # exactly on a node
            l = rng.choice(labels)
            out[i] = [loc[l][0], loc[l][1]]
        elif r < outlier_p + 0.22 and len(out) >= 3:  # gap
            del out[i]
    return out


# ----------------------------------------------------------------------------- matcher configs
def gen_config(rng, world, family=None, only_edges=None, ne=None, width=None, second_order=None,
               cutoffs=True, sqlite_ok=False):
    unit = world.get("unit", 1.0)
    if family is None:
        family = rng.choice(["simple", "distance"])
    if family == "distance":
        only_edges = True
    elif only_edges is None:
        only_edges = rng.random() < 0.6
    sigma = rng.choice([0.2, 0.3, 0.5, 0.8, 1.0, 1.5, 3.0]) * unit
    cfg = {"family": family, "only_edges": only_edges, "obs_noise": sigma}
    if cutoffs:
        if rng.random() < 0.55:
            cfg["max_dist"] = rng.choice([0.6, 1.0, 1.5, 2.5, 5.0]) * unit
        if rng.random() < 0.5:
            cfg["max_dist_init"] = rng.choice([0.5, 1.0, 2.0, 4.0, 50.0]) * unit
        if rng.random() < 0.5:
            cfg["min_prob_norm"] = rng.choice([0.001, 0.01, 0.1, 0.3, 0.5, 0.8])
            if cfg["min_prob_norm"] == 0.001 and derive("mpn0", sigma, world.get("shape")) % 2:
                # probability zero as the cut-off: a valid way of saying "none" (int or float)
                cfg["min_prob_norm"] = [0, 0.0][derive("mpn0t", sigma) % 2]
    if ne is None:
        ne = rng.random() < 0.6
    cfg["non_emitting_states"] = bool(ne)
    if ne:
        if rng.random() < 0.4:
            cfg["obs_noise_ne"] = sigma * rng.choice([0.5, 1.5, 2.0, 4.0])
        if rng.random() < 0.3:
            cfg["non_emitting_length_factor"] = rng.choice([0.5, 0.9, 1.0])
        if rng.random() < 0.35:
            cfg["ne_maxnb"] = rng.choice([1, 2, 3])
    if width is None:
        width = rng.choice([None, None, 1, 2, 3, 5])
    if width is False:
        width = None
    if width is not None:
        cfg["max_lattice_width"] = width
    if second_order is None:
        second_order = rng.random() < 0.35
    cfg["avoid_goingback"] = bool(second_order)
    if family == "distance":
        if rng.random() < 0.4:
            cfg["dist_noise"] = sigma * rng.choice([0.5, 2.0, 5.0])
        if ne and rng.random() < 0.3:
            cfg["dist_noise_ne"] = sigma * rng.choice([1.0, 3.0, 10.0])
        if ne and rng.random() < 0.4:
            cfg["restrained_ne"] = False
    return cfg


def gen_faults(rng, nops, kinds=("relist", "dup", "clock", "abort", "restart", "shuffle"), abort_p=0.25,
               restart_p=0.15):
    f = {}
    if "dup" in kinds and rng.random() < 0.3:
        f["dup"] = rng.randrange(1 << 30)
    if "shuffle" in kinds and rng.random() < 0.3:
        f["shuffle"] = rng.randrange(1 << 30)
    if "clock" in kinds and rng.random() < 0.5:
        f["clock"] = rng.randrange(1 << 30)
    if "abort" in kinds and rng.random() < abort_p and nops > 0:
        f["aborts"] = [{"op": rng.randrange(nops), "call": rng.randrange(0, 30),
                        "exc": rng.choice(["operr", "kbd", "mem"])}]
    if "restart" in kinds and rng.random() < restart_p and nops > 1:
        f["restart_before"] = [rng.randrange(1, nops)]
    return f


def gen_ops(rng, ntrace, cfg, profile, ntrace2=None):
    """Operation list for a World-A session (see _gen_ops).  In a quarter of the sessions with several operations
    the `unique` flag is chosen per call instead of per session: the format of one answer must not depend on what an
    earlier call asked for."""
    ops = _gen_ops(rng, ntrace, cfg, profile, ntrace2)
    if len(ops) >= 2 and rng.random() < 0.25:
        for op in ops[1:]:
            op["unique"] = rng.random() < 0.5
    return ops


def _gen_ops(rng, ntrace, cfg, profile, ntrace2=None):
    """Operation list for a World-A session.  ntrace2: length of an alternative trace that may be
    matched on the same matcher object (ops with "alt": true)."""
    unique = rng.random() < 0.4
    n_main, cur_alt = ntrace, False
    if profile == "single":
        return [{"op": "match", "k": ntrace, "unique": unique}]
    ops = []
    if profile == "extend":
        cuts = sorted(set(rng.sample(range(1, ntrace), min(ntrace - 1, rng.randint(1, 4))))) if ntrace > 1 else []
        if not cuts:
            return [{"op": "match", "k": ntrace, "unique": unique}]
        ops.append({"op": "match", "k": cuts[0], "unique": unique})
        for c in cuts[1:] + [ntrace]:
            ops.append({"op": "extend", "k": c, "unique": unique})
        return ops
    if profile == "widen":
        w = cfg.get("max_lattice_width") or 1
        ops.append({"op": "match", "k": ntrace, "unique": unique})
        for _ in range(rng.randint(1, 3)):
            w += rng.randint(1, 3)
            ops.append({"op": "widen", "w": w, "unique": unique})
        return ops
    if profile in ("history", "anyops"):
        k = rng.randint(1, ntrace)
        w = cfg.get("max_lattice_width")
        ops.append({"op": "match", "k": k, "unique": unique})
        for _ in range(rng.randint(0, 5 if profile == "history" else 7)):
            choices = []
            if k < ntrace:
                choices += ["extend", "extend"]
            if w is not None:
                choices += ["widen", "widen"]
            choices += ["rematch"]
            if profile == "anyops":
                choices += ["cwd", "cwd", "match"]
            if ntrace2:
                choices += ["match_alt"]
            c = rng.choice(choices)
            if c == "extend":
                k = rng.randint(k + 1, ntrace)
                ops.append({"op": "extend", "k": k, "unique": unique})
            elif c == "widen":
                w += rng.randint(1, 3)
                ops.append({"op": "widen", "w": w, "unique": unique})
            elif c == "rematch":
                ops.append({"op": "rematch", "k": k, "unique": unique})
            elif c == "match":
                k = rng.randint(1, ntrace)
                op = {"op": "match", "k": k, "unique": unique}
                if cur_alt:
                    op["alt"] = True
                ops.append(op)
            elif c == "match_alt":
                # the same matcher object is used for another trace
                cur_alt = not cur_alt
                ntrace = ntrace2 if cur_alt else n_main
                k = rng.randint(1, ntrace)
                op = {"op": "match", "k": k, "unique": unique}
                if cur_alt:
                    op["alt"] = True
                ops.append(op)
            elif c == "cwd":
                ops.append({"op": "cwd", "kbest": rng.randint(1, 3), "nb_obs": rng.randint(1, 3),
                            "max_dist": rng.choice([None, 1.0, 3.0, 10.0]), "unique": unique})
        return ops
    raise ValueError(profile)


# ----------------------------------------------------------------------------- transforms
def to_latlon(world, trace, lat0, lon0):
    """Place a planar world given in metres on the sphere by a local equirectangular map."""
    R = 6371000.0
    c = math.cos(math.radians(lat0))

    def tr(p):
        lon = lon0 + math.degrees(p[1] / (R * c))
        if lon > 180.0:          # a street that crosses the antimeridian
            lon -= 360.0
        elif lon <= -180.0:
            lon += 360.0
        return [lat0 + math.degrees(p[0] / R), lon]
    w2 = dict(world)
    w2["latlon"] = True
    w2["nodes"] = [[l, tr(p), list(nb)] for l, p, nb in world["nodes"]]
    t2 = [tr(p) + list(p[2:]) for p in trace]
    return w2, t2


def relist(world, salt):
    """The same road graph listed in another order (nodes and every neighbour list)."""
    rng = random.Random(derive("relist", salt))
    w2 = dict(world)
    nodes = [[l, list(p), list(nb)] for l, p, nb in world["nodes"]]
    rng.shuffle(nodes)
    for nd in nodes:
        rng.shuffle(nd[2])
    w2["nodes"] = nodes
    w2["linked"] = [[list(e), [list(f) for f in fs]] for e, fs in world.get("linked", [])]
    rng.shuffle(w2["linked"])
    return w2
