"""R-geom: reference geometry, written independently of the repository (plain floats).

Planar: points are (y, x) pairs like in the repository, but nothing here depends on which
axis is which.  Spherical: points are (lat, lon) in degrees on the 6371 km sphere,
computed with 3-D unit vectors.
"""
import math

R_EARTH = 6371000.0


# ---------------------------------------------------------------- planar
def p_dist(a, b):
    return math.hypot(a[0] - b[0], a[1] - b[1])


def p_project(p, s1, s2):
    """Nearest point of segment s1-s2 to p -> (dist, point, t)."""
    dy, dx = s2[0] - s1[0], s2[1] - s1[1]
    l2 = dy * dy + dx * dx
    if l2 == 0.0:
        return p_dist(p, s1), (s1[0], s1[1]), 0.0
    t = ((p[0] - s1[0]) * dy + (p[1] - s1[1]) * dx) / l2
    t = 0.0 if t < 0.0 else (1.0 if t > 1.0 else t)
    q = (s1[0] + t * dy, s1[1] + t * dx)
    return p_dist(p, q), q, t


def _orient(a, b, c):
    return (b[0] - a[0]) * (c[1] - a[1]) - (b[1] - a[1]) * (c[0] - a[0])


def p_segments_cross(a1, a2, b1, b2):
    """Proper or touching intersection of two closed segments."""
    d1 = _orient(b1, b2, a1)
    d2 = _orient(b1, b2, a2)
    d3 = _orient(a1, a2, b1)
    d4 = _orient(a1, a2, b2)
    if ((d1 > 0 and d2 < 0) or (d1 < 0 and d2 > 0)) and ((d3 > 0 and d4 < 0) or (d3 < 0 and d4 > 0)):
        return True
    return False


def p_segseg(a1, a2, b1, b2):
    """Minimum distance between two closed planar segments."""
    if p_segments_cross(a1, a2, b1, b2):
        return 0.0
    return min(p_project(a1, b1, b2)[0], p_project(a2, b1, b2)[0],
               p_project(b1, a1, a2)[0], p_project(b2, a1, a2)[0])


def p_point_on_segment(q, s1, s2, t, tol):
    """Is q the point of s1-s2 at relative position t (within tol)?"""
    e = (s1[0] + t * (s2[0] - s1[0]), s1[1] + t * (s2[1] - s1[1]))
    return p_dist(q, e) <= tol


# ---------------------------------------------------------------- spherical
def _vec(p):
    lat, lon = math.radians(p[0]), math.radians(p[1])
    c = math.cos(lat)
    return (c * math.cos(lon), c * math.sin(lon), math.sin(lat))


def _unvec(v):
    n = math.sqrt(v[0] * v[0] + v[1] * v[1] + v[2] * v[2])
    return (math.degrees(math.asin(max(-1.0, min(1.0, v[2] / n)))), math.degrees(math.atan2(v[1], v[0])))


def _cross(a, b):
    return (a[1] * b[2] - a[2] * b[1], a[2] * b[0] - a[0] * b[2], a[0] * b[1] - a[1] * b[0])


def _dot(a, b):
    return a[0] * b[0] + a[1] * b[1] + a[2] * b[2]


def _norm(a):
    return math.sqrt(_dot(a, a))


def _angle(a, b):
    return math.atan2(_norm(_cross(a, b)), _dot(a, b))


def s_dist(a, b):
    return R_EARTH * _angle(_vec(a), _vec(b))


def s_project(p, s1, s2):
    """Nearest point of the great-circle arc s1-s2 to p -> (dist, point(lat,lon), t)."""
    a, b, v = _vec(s1), _vec(s2), _vec(p)
    ab = _angle(a, b)
    if ab == 0.0:
        return s_dist(p, s1), (s1[0], s1[1]), 0.0
    n = _cross(a, b)
    nn = _norm(n)
    n = (n[0] / nn, n[1] / nn, n[2] / nn)
    # foot of p on the great circle
    k = _dot(v, n)
    f = (v[0] - k * n[0], v[1] - k * n[1], v[2] - k * n[2])
    fn = _norm(f)
    if fn < 1e-15:   # p is the pole of the circle: every point is equally near
        return R_EARTH * math.pi / 2, (s1[0], s1[1]), 0.0
    f = (f[0] / fn, f[1] / fn, f[2] / fn)
    # signed angle from a to f along the circle direction a->b
    ang = math.atan2(_dot(_cross(a, f), n), _dot(a, f))
    t = ang / ab
    if t <= 0.0:
        return R_EARTH * _angle(v, a), (s1[0], s1[1]), 0.0
    if t >= 1.0:
        return R_EARTH * _angle(v, b), (s2[0], s2[1]), 1.0
    return R_EARTH * _angle(v, f), _unvec(f), t


def s_point_at(s1, s2, t):
    a, b = _vec(s1), _vec(s2)
    ab = _angle(a, b)
    if ab == 0.0:
        return (s1[0], s1[1])
    s = math.sin(ab)
    wa, wb = math.sin((1 - t) * ab) / s, math.sin(t * ab) / s
    return _unvec((wa * a[0] + wb * b[0], wa * a[1] + wb * b[1], wa * a[2] + wb * b[2]))


def s_segseg(a1, a2, b1, b2, steps=0):
    """Minimum distance between two short arcs (street scale): local tangent-plane computation
    around a1 (error ~ d^3/R^2, < 1 mm below 1 km)."""
    def loc(p):
        dlon = (p[1] - a1[1] + 180.0) % 360.0 - 180.0      # shortest way round (antimeridian)
        return (math.radians(p[0] - a1[0]) * R_EARTH,
                math.radians(dlon) * R_EARTH * math.cos(math.radians((p[0] + a1[0]) / 2)))
    return p_segseg(loc(a1), loc(a2), loc(b1), loc(b2))


# ---------------------------------------------------------------- metric objects
class Planar:
    latlon = False
    dist = staticmethod(p_dist)
    project = staticmethod(p_project)
    segseg = staticmethod(p_segseg)

    @staticmethod
    def point_at(s1, s2, t):
        return (s1[0] + t * (s2[0] - s1[0]), s1[1] + t * (s2[1] - s1[1]))


class Spherical:
    latlon = True
    dist = staticmethod(s_dist)
    project = staticmethod(s_project)
    segseg = staticmethod(s_segseg)
    point_at = staticmethod(s_point_at)


def metric(latlon):
    return Spherical if latlon else Planar
