"""Child interpreter of the C18 cross-process reopen: opens a stored SqliteMap in a fresh process (started
with another PYTHONHASHSEED) and prints its answers to a battery of questions as JSON."""
import json
import os
import sys
import warnings

sys.path.insert(0, os.path.dirname(os.path.dirname(os.path.realpath(__file__))))
warnings.filterwarnings("ignore")
from sim import bootstrap  # noqa: E402,F401
from sim.battery import battery_json  # noqa: E402
from leuvenmapmatching.map.sqlite import SqliteMap  # noqa: E402

if __name__ == "__main__":
    db, spec = sys.argv[1], json.load(open(sys.argv[2]))
    import contextlib
    import io
    with contextlib.redirect_stdout(io.StringIO()):
        m = SqliteMap.from_file(db)
        out = battery_json(m, spec["doc"], spec["labels"], [tuple(e) for e in spec["edges"]])
        m.db.close()
    sys.stdout.write(json.dumps(out))
