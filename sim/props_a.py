"""Per-property scenario generators and evaluators for World-A (matching session) properties.

gen_<id>(rng, tier) -> scenario document;  eval_<id>(doc) -> result dict:
  {"violations": [...], "sig": str, "nontrivial": bool, "stats": {counter: n}}
"""
import math
import random

from . import gen
from . import oracles_a as oa
from .refgeom import metric
from .refscore import close
from .refstore import RefStore, tup
from .refwalks import WalkRef, TooLarge
from .twins import clone, compare, max_live_size, num_equal, near_tie_at_pruning_boundary, tie_upstream
from .world_a import run_session, InjectedFault

TIER = "quick"       # set by the worker / driver before scenarios are generated
ALL_FAULTS = ("relist", "dup", "clock", "abort", "restart", "shuffle")
TWIN_FAULTS = ("dup", "clock")          # faults that twin sessions may share (consistent answers)


# ----------------------------------------------------------------------------- helpers
def base_doc(rng, profile, latlon_p=0.0, sqlite_p=0.15, pickle_p=0.06, fault_kinds=ALL_FAULTS,
             cfg_kw=None, world_kw=None, trace_kw=None, big_p=0.08, antimeridian_p=0.06, huge_p=0.03):
    cfg_kw, world_kw, trace_kw = dict(cfg_kw or {}), dict(world_kw or {}), dict(trace_kw or {})
    latlon = rng.random() < latlon_p
    r = rng.random()
    backend = "inmem"
    if r < sqlite_p:
        backend = rng.choice(["sqlite", "sqlite_bulk"])
    elif r < sqlite_p + pickle_p:
        backend = "pickle"
    elif r < sqlite_p + pickle_p + 0.1:
        backend = "inmem_api"
    elif r < sqlite_p + pickle_p + 0.22 and sqlite_p > 0:
        backend = "scan"        # a user-written BaseMap subclass with complete spatial queries
    if backend.startswith("sqlite"):
        world_kw.setdefault("labels", rng.choice(["int", "bigint"]))
        cfg_kw.setdefault("only_edges", True if rng.random() < 0.8 else None)
    if TIER == "thorough" and "n" not in world_kw and rng.random() < 0.3:
        # the thorough tier also visits larger worlds and longer traces
        world_kw["n"] = rng.randint(8, 12)
        trace_kw.setdefault("nobs", rng.randint(4, 10))
    huge = False
    hs = random.Random(gen.derive("huge", repr(rng.getstate())))    # a side stream: the main one is not consumed
    if huge_p and "unit" not in world_kw and hs.random() < huge_p:
        # SIZE as a swarm dimension (both tiers): a town-sized map and a long trace, so that limits, windows and bounds
        # which small inputs never reach (depth of non-emitting runs, width of a column, length of a back-tracking chain)
        # are met as well
        huge = True
        world_kw["n"] = hs.randint(13, 26)
        trace_kw["nobs"] = hs.randint(10, 24)
        if hs.random() < 0.4 and "spacing" not in trace_kw:
            trace_kw["spacing"] = hs.choice([0.6, 1.0, 2.5, 6.0, 9.0, 12.0]) * (20.0 if latlon else 1.0)
    unit = 20.0 if latlon else world_kw.pop("unit", 1.0)
    offset = (0.0, 0.0)
    if not latlon and rng.random() < big_p:
        offset = (float(rng.randrange(10 ** 6, 10 ** 7)), float(rng.randrange(10 ** 6, 2 * 10 ** 7)))
    want_shallow = "noise" not in trace_kw and hs.random() < (0.25 if offset != (0.0, 0.0) else 0.05)
    if want_shallow and not latlon and big_p and offset == (0.0, 0.0) and hs.random() < 0.5:
        offset = (float(hs.randrange(10 ** 6, 10 ** 7)), float(hs.randrange(10 ** 6, 2 * 10 ** 7)))
    if want_shallow and "shape" not in world_kw and not huge and hs.random() < 0.7:
        # a chain of collinear roads: observations several roads apart can only be linked through non-emitting states
        world_kw["shape"] = "line"
        world_kw["n"] = max(world_kw.get("n", 0), hs.randint(5, 9))
    world = gen.gen_world(rng, unit=unit, offset=offset, **world_kw)
    if backend == "scan":
        world["linked"] = []       # the user-written map has no notion of linked parallel edges
    if world["shape"] == "grid" and "half_grid" not in trace_kw and rng.random() < 0.5:
        trace_kw["half_grid"] = True
    cfg = gen.gen_config(rng, world, **cfg_kw)
    if huge:
        if cfg.get("max_lattice_width") is not None and hs.random() < 0.6:
            cfg["max_lattice_width"] = hs.choice([4, 8, 12, 20])
        if cfg.get("non_emitting_states") and hs.random() < 0.5:
            cfg.pop("ne_maxnb", None)
    if cfg.get("non_emitting_states") and want_shallow:
        # observations a hair off the road, several roads apart: the line between two observations crosses the roads
        # it skips at a very shallow angle (nearly parallel segments in the non-emitting geometry), most often on maps
        # in projected coordinates of magnitude 1e6-1e7
        trace_kw["noise"] = hs.choice([0.002, 0.005, 0.01, 0.02]) * unit
        trace_kw["exact_p"] = 0.0
        trace_kw.setdefault("outlier_p", 0.0)
        if hs.random() < 0.6:
            for k_ in ("max_dist", "max_dist_init", "min_prob_norm"):
                cfg.pop(k_, None)
        if "sparse" not in trace_kw and hs.random() < 0.8:
            trace_kw["sparse"] = True
        shallow = True
    else:
        shallow = False
    if cfg.get("non_emitting_states") and "sparse" not in trace_kw and rng.random() < 0.4:
        trace_kw["sparse"] = True
    trace = gen.gen_trace(rng, world, **trace_kw)
    if latlon:
        lat0 = rng.uniform(-58, 58)
        lon0 = rng.uniform(-170, 170)
        if rng.random() < antimeridian_p and not backend.startswith("sqlite"):
            # the map straddles the antimeridian (not on the SQLite backend: its edge index is known to be wrong
            # for edges that cross it, listed finding D19 of C11, which would show up here as missing start edges)
            lon0 = rng.choice([179.9996, -179.9996, 179.99995, -179.99998])
        world, trace = gen.to_latlon(world, trace, lat0, lon0)
        world["unit"] = unit
    trace2 = None
    if profile in ("history", "anyops") and rng.random() < 0.35:
        # another trace for the same matcher object (re-use of a matcher)
        trace2 = gen.gen_trace(rng, world, **{k: v for k, v in trace_kw.items() if k != "nobs"})
    if latlon and trace2 is not None:
        _, trace2 = gen.to_latlon({"nodes": []}, trace2, lat0, lon0)
    ops = gen.gen_ops(rng, len(trace), cfg, profile, ntrace2=len(trace2) if trace2 else None)
    faults = gen.gen_faults(rng, len(ops), kinds=fault_kinds)
    if "relist" in fault_kinds and rng.random() < 0.5:
        world = gen.relist(world, rng.randrange(1 << 30))
        faults["relist"] = True
    if len(ops) >= 2:
        # between two operations of the client: another matcher object works on the same map; the client makes a
        # call the matcher refuses (expand for a trace that is no extension) and carries on
        if rng.random() < 0.15:
            faults["other_matcher_before"] = {str(rng.randrange(1, len(ops))): rng.randint(1, 8)}
        if rng.random() < 0.15:
            faults["refused_before"] = {str(rng.randrange(1, len(ops))): rng.choice(["prefix", "differs"])}
    d = {"kind": "A", "world": world, "trace": trace, "cfg": cfg, "ops": ops, "faults": faults,
         "backend": backend, "log": "ERROR"}
    if huge:
        d["huge"] = True
    if shallow:
        d["shallow"] = True
    if trace2 is not None and any(op.get("alt") for op in ops):
        d["trace2"] = trace2
    if backend == "inmem_api" and rng.random() < 0.6:
        # while the map was built through add_node / add_edge, one or two calls were refused (road to a node declared
        # only later); nothing of a refused call may remain in the map
        labs = [nd[0] for nd in world["nodes"]]
        nb = {nd[0]: set(nd[2]) for nd in world["nodes"]}
        cand = [[a, b] for a in labs for b in labs if a != b and b not in nb[a]]
        if cand:
            world["rejected"] = rng.sample(cand, min(len(cand), rng.randint(1, 2)))
    return d


def session_sig(doc, sess, extra=""):
    cfg = doc["cfg"]
    kinds = "".join(o.kind[0] for o in sess.outcomes)
    fired = sorted(k for k, v in sess.simmap.fired.items() if v) if sess.simmap else []
    fired += sorted(getattr(sess, "interfered", {}))
    last = None
    for o in sess.outcomes:
        if o.obs is not None:
            last = o
    stop = "-"
    depth = 0
    if last is not None:
        k = last.op.get("k", sess.k) or 0
        stop = "c" if (not last.obs["empty"] and last.obs["idx"] == k - 1) else ("e" if last.obs["empty"] else "s")
        depth = max([p[2] for p in last.obs["path"]] or [0])
    w = doc["world"]
    extra = "%s|%s,%d,%d" % (extra, w.get("shape", "?"), len(w["nodes"]), len(doc["trace"]))
    return "|".join(str(x) for x in (cfg["family"], cfg.get("only_edges", True), doc.get("backend"),
                                     bool(doc["world"].get("latlon")), bool(cfg.get("non_emitting_states")),
                                     cfg.get("max_lattice_width") is not None, bool(cfg.get("avoid_goingback", True)),
                                     kinds, ",".join(fired), sess.restarts, stop, min(depth, 3), extra))


def session_stats(sess, ctx=None):
    st = {}
    if sess.simmap is not None:
        for k, v in sess.simmap.fired.items():
            if v:
                st["fired_" + k] = v
        st["map_calls"] = sess.simmap.total_calls
    if sess.restarts:
        st["fired_restart"] = sess.restarts
    for k, v in getattr(sess, "interfered", {}).items():
        st["fired_" + k] = v
    from . import world_a as _wa
    if _wa.REJECTED_CALLS[0]:
        st["fired_rejected_call"] = _wa.REJECTED_CALLS[0]
        _wa.REJECTED_CALLS[0] = 0
    if sess.clock is not None:
        st["clock_reads"] = sess.clock.reads
        if sess.clock.jumps:
            st["fired_clock"] = sess.clock.jumps
        st["sim_seconds"] = sess.clock.covered
    st["ops"] = len(sess.outcomes)
    for o in sess.outcomes:
        if o.exc is not None and not o.injected:
            st["uninjected_exceptions"] = st.get("uninjected_exceptions", 0) + 1
            st["exc_" + o.kind + "_" + type(o.exc).__name__] = st.get("exc_" + o.kind + "_" + type(o.exc).__name__, 0) + 1
    for o in sess.outcomes:
        if o.kind == "cwd" and o.exc is None:
            st["probe_continue_with_distance_ok"] = st.get("probe_continue_with_distance_ok", 0) + 1
    if ctx is not None:
        for k, v in ctx.probes.items():
            st["probe_" + k] = v
        if ctx.fragile:
            st["fragile"] = ctx.fragile
    return st


def nontrivial(sess):
    for o in sess.outcomes:
        if o.obs is not None and not o.obs["empty"]:
            return True
    return False


def result(vs, doc, sess, ctx=None, extra_sig="", stats=None):
    st = session_stats(sess, ctx)
    if doc.get("faults", {}).get("relist"):
        st["fired_relist"] = 1
    if doc.get("log") == "DEBUG" and sess.log_records:
        st["fired_debuglog"] = 1
        st["debug_log_records"] = sess.log_records
    if stats:
        for k, v in stats.items():
            st[k] = st.get(k, 0) + v
    if doc.get("huge"):
        st["probe_town_sized_world"] = 1
    if doc.get("shallow"):
        st["probe_shallow_crossings_trace"] = 1
    m = getattr(sess, "matcher", None)
    if m is not None and getattr(m, "lattice", None):
        try:
            st["max_non_emitting_depth"] = max(len(c.o) - 1 for c in m.lattice.values())
            st["max_column_layer_size"] = max(len(l) for c in m.lattice.values() for l in c.o)
            st["max_columns"] = len(m.lattice)
        except Exception:
            pass
    return {"violations": vs, "sig": session_sig(doc, sess, extra_sig), "nontrivial": nontrivial(sess), "stats": st,
            "shape": lattice_shape(sess)}


def lattice_shape(sess):
    """Digest of the final lattice shape: per column and layer (entries, live, postponed)."""
    import zlib
    m = sess.matcher
    if m is None or not m.lattice:
        return 0
    E = m.expand_now
    shp = []
    for ci in sorted(m.lattice):
        col = m.lattice[ci]
        shp.append(tuple((len(l), sum(1 for e in l.values() if not e.stop),
                          sum(1 for e in l.values() if not e.stop and e.delayed > E)) for l in col.o))
    return zlib.crc32(repr((E, shp)).encode())


def with_debug_log(rng, d, p=0.15):
    """Environment: the package logger at DEBUG with a capturing handler (stopped candidates are then
    materialised in the lattice).  Invariants must hold at any log level."""
    if rng.random() < p:
        d["log"] = "DEBUG"
        d["faults"]["debuglog"] = True
    return d


def eval_invariants(doc, checks, skip_jumped=False):
    ctx = oa.Ctx(doc)
    vs = []

    def on_op(s, o):
        ctx.tracker.update(s, o)
        if o.exc is not None or o.ret is None:
            return
        if skip_jumped and s.jumped:
            return
        for f in checks:
            vs.extend(f(ctx, s, o))
    sess = run_session(doc, on_op)
    return result(vs, doc, sess, ctx)


# ----------------------------------------------------------------------------- C02 .. C05, C09
def detour_doc(rng, latlon_p=0.6):
    """A one-way road that leaves the line of travel, makes a loop of short roads and comes back; the observations
    stay on the line of travel and are close together, so the loop can only be followed through a long run of
    non-emitting states whose roads lie far from the observation segment and lead away from it."""
    latlon = rng.random() < latlon_p
    d = base_doc(rng, "single", latlon_p=0.0, sqlite_p=0.0, pickle_p=0.0, big_p=0.0,
                 cfg_kw={"ne": True, "width": False, "second_order": rng.random() < 0.3},
                 world_kw={"labels": "int", "n": 3}, fault_kinds=("dup", "clock"))
    unit = 20.0 if latlon else 1.0
    h = rng.randint(2, 3)
    gap = rng.choice([0.3, 0.5, 1.0])
    pts = [(0.0, -2.0), (0.0, 1.0)] + [(float(i), 1.0) for i in range(1, h + 1)] + \
          [(float(i), 1.0 + gap) for i in range(h, 0, -1)] + [(0.0, 1.0 + gap), (0.0, 4.0 + gap)]
    if rng.random() < 0.5:
        pts = [(y + rng.uniform(-0.1, 0.1), x + rng.uniform(-0.1, 0.1)) for y, x in pts]
    labs = rng.sample(range(0, 90), len(pts))
    nodes = []
    for i, (y, x) in enumerate(pts):
        nb = [labs[i + 1]] if i + 1 < len(pts) else []
        if i > 0 and rng.random() < 0.4:
            nb.append(labs[i - 1])          # some roads are two-way
        nodes.append([labs[i], [round(y * unit, 3), round(x * unit, 3)], nb])
    world = {"latlon": False, "shape": "detour", "unit": unit, "nodes": nodes, "linked": []}
    trace = [[rng.uniform(-0.1, 0.1) * unit, -1.0 * unit], [rng.uniform(-0.1, 0.1) * unit, (1.0 + gap / 2) * unit],
             [rng.uniform(-0.1, 0.1) * unit, (3.0 + gap) * unit]]
    if rng.random() < 0.5:
        trace.pop(1)
    close = rng.random() < 0.6
    if close:
        # observations close together, right before the road leaves and right after it has come back: the roads of
        # the loop are farther from the observation segment than their own length plus the length of that segment
        trace = [[rng.uniform(-0.05, 0.05) * unit, 0.8 * unit], [rng.uniform(-0.05, 0.05) * unit, (1.2 + gap) * unit]]
    if latlon:
        world, trace = gen.to_latlon(world, trace, rng.uniform(-58, 58), rng.uniform(-170, 170))
        world["unit"] = unit
    cfg = d["cfg"]
    for k in ("max_dist", "max_dist_init", "min_prob_norm", "max_lattice_width"):
        cfg.pop(k, None)
    cfg["non_emitting_states"] = True
    cfg["only_edges"] = True
    cfg["obs_noise"] = unit * rng.choice([0.25, 0.35, 0.5])
    cfg.pop("obs_noise_ne", None)
    if cfg["family"] == "distance":
        cfg["dist_noise"] = cfg["obs_noise"] * rng.choice([1.0, 3.0])
        cfg.pop("dist_noise_ne", None)
        cfg["restrained_ne"] = False
    cfg["ne_maxnb"] = 100
    if close:
        cfg["max_dist_init"] = 0.35 * unit
        cfg["obs_noise_ne"] = 3.0 * unit
        cfg["non_emitting_length_factor"] = 0.95
        if cfg["family"] == "distance":
            cfg["dist_noise_ne"] = 10.0 * unit
    d["world"], d["trace"] = world, trace
    d.pop("trace2", None)
    d["ops"] = [{"op": "match", "k": len(trace), "unique": False}]
    d["faults"].pop("relist", None)
    return d


def gen_C02(rng, tier):
    if rng.random() < 0.05:
        return with_debug_log(rng, detour_doc(rng))
    d = base_doc(rng, rng.choice(["single", "extend", "widen", "history", "history"]), latlon_p=0.15,
                 world_kw={"linked_p": 0.15, "zero_len_p": 0.1}, trace_kw={}, antimeridian_p=0.3)
    return with_debug_log(rng, d)


def eval_C02(doc):
    return eval_invariants(doc, [oa.check_c02], skip_jumped=True)


def gen_C03(rng, tier):
    return with_debug_log(rng, base_doc(rng, rng.choice(["single", "single", "extend", "widen", "history"]), latlon_p=0.05,
                                        world_kw={"linked_p": 0.1}))


def eval_C03(doc):
    return eval_invariants(doc, [oa.check_c03], skip_jumped=True)


def gen_C04(rng, tier):
    return with_debug_log(rng, base_doc(rng, rng.choice(["single", "extend", "widen", "history", "history"]), latlon_p=0.05,
                                        world_kw={"linked_p": 0.3, "directed_p": rng.choice([0.1, 0.4, 0.8]), "selfnbr_p": 0.2},
                                        cfg_kw={"ne": True if rng.random() < 0.75 else None}))


def eval_C04(doc):
    return eval_invariants(doc, [oa.check_c04])


def gen_C05(rng, tier):
    # the jump operation (continue_with_distance) is not excluded by C05: 20 % of the histories use it, on
    # traces with an outlier and a cut-off so that there is an early stop to continue from
    prof = rng.choice(["single", "single", "extend", "widen", "history", "anyops"])
    if prof == "anyops":
        d = base_doc(rng, prof, latlon_p=0.2, world_kw={"linked_p": 0.05}, cfg_kw={"only_edges": True},
                     trace_kw={"outlier_p": 0.7, "nobs": rng.choice([3, 4, 5, 6, 7, 8])})
        d["cfg"].setdefault("max_dist", 2.5 * d["world"].get("unit", 1.0))
        return with_debug_log(rng, d)
    world_kw = {"linked_p": 0.05, "zero_len_p": 0.12}
    latlon_p = 0.35
    if rng.random() < 0.08:
        # a map drawn in very small units (raw degrees used as planar coordinates, kilometres, ...): roads of
        # about 1e-4 units; every distance parameter scales with the unit
        world_kw["unit"] = 2.0 ** -14
        latlon_p = 0.0
    return with_debug_log(rng, base_doc(rng, prof, latlon_p=latlon_p, world_kw=world_kw, big_p=0.0 if "unit" in world_kw else 0.08))


def eval_C05(doc):
    return eval_invariants(doc, [oa.check_c05])


def gen_C09(rng, tier):
    # continue_with_distance only works after an early stop: half of the sessions get an outlier and cut-offs
    jumpy = rng.random() < 0.5
    d = base_doc(rng, rng.choice(["anyops", "anyops", "history", "widen", "extend"]) if not jumpy else "anyops",
                 latlon_p=0.05, world_kw={"linked_p": 0.15},
                 trace_kw={"outlier_p": 0.7, "nobs": rng.choice([3, 4, 5, 6, 7, 8])} if jumpy else {},
                 cfg_kw={"only_edges": True} if jumpy else {})
    if jumpy:
        unit = d["world"].get("unit", 1.0)
        d["cfg"].setdefault("max_dist", 2.5 * unit)
    return with_debug_log(rng, d, 0.25)


def eval_C09(doc):
    return eval_invariants(doc, [oa.check_c09])


# ----------------------------------------------------------------------------- C01
def gen_C01(rng, tier):
    fam = rng.choice(["simple_e", "simple_ne", "distance"])
    cfg_kw = {"ne": False, "width": False, "second_order": False,
              "family": "distance" if fam == "distance" else "simple",
              "only_edges": fam != "simple_ne"}
    big = TIER == "thorough" and rng.random() < 0.3
    d = base_doc(rng, "single", latlon_p=0.0, sqlite_p=0.12 if fam != "simple_ne" else 0.0,
                 cfg_kw=cfg_kw, world_kw={"n": rng.randint(2, 7) if not big else rng.randint(7, 10), "linked_p": 0.1},
                 trace_kw={"nobs": rng.choice([1, 2, 3, 3, 4, 4, 5, 6]) if not big else rng.randint(5, 9)},
                 fault_kinds=("relist", "dup", "clock", "abort", "restart"))
    d["cfg"].pop("max_lattice_width", None)
    if rng.random() < 0.3:
        # the matcher object has been used for another trace before (each match is judged on its own)
        w_plan = d["world"]
        d["trace2"] = gen.gen_trace(rng, w_plan, nobs=rng.randint(1, 6))
        if rng.random() < 0.35 and len(d["trace"]) >= 2:
            # colliding sibling: both traces lie exactly on roads, have the same length and end in the same point,
            # so the two results tend to end in the same state with the same probability
            n = len(d["trace"])
            t1 = gen.gen_trace(rng, w_plan, nobs=n, noise=0.0, exact_p=1.0, perturb=False)
            t2 = gen.gen_trace(rng, w_plan, nobs=n, noise=0.0, exact_p=1.0, perturb=False)
            if len(t1) == n and len(t2) == n:
                t2[-1] = list(t1[-1])
                d["trace"], d["trace2"] = t1, t2
        d["ops"] = [{"op": "match", "k": len(d["trace2"]), "unique": False, "alt": True}] + d["ops"]
        for a in d["faults"].get("aborts", []):
            a["op"] = rng.randrange(len(d["ops"]))
        if "restart_before" in d["faults"] or rng.random() < 0.25:
            d["faults"]["restart_before"] = [1]
        if d["backend"] != "scan" and rng.random() < 0.5:
            # ... on a map that had fewer roads then: some directed edges are added to the live map object
            # only after that first match (the earlier match is not judged, the map was another one)
            cand = [[l, b] for l, _, nb in w_plan["nodes"] for b in nb if b != l]
            lk = set()
            for e, fs in w_plan.get("linked", []):
                lk.add(tuple(e))
                lk.update(tuple(f) for f in fs)
            cand = [e for e in cand if tuple(e) not in lk]
            if cand:
                w_plan["late_edges"] = rng.sample(cand, min(len(cand), rng.randint(1, 3)))
                d["ops"].insert(1, {"op": "grow"})
                for a in d["faults"].get("aborts", []):
                    if a["op"] == 1:
                        a["op"] = 2
                if "restart_before" in d["faults"]:
                    d["faults"]["restart_before"] = [rng.choice([1, 2])]
    return d


def _state_of(shortkey):
    if isinstance(shortkey, (tuple, list)):
        return ("e", shortkey[0], shortkey[1])
    return ("n", shortkey)


def eval_C01(doc):
    ctx = oa.Ctx(doc)
    vs = []
    stats = {}
    with_self = ctx.inmem

    def on_op(s, o):
        if o.exc is not None or o.ret is None or o.kind not in ("match", "retry", "rematch", "fresh"):
            return
        if doc["world"].get("late_edges") and not s.grown:
            return
        if s.grown:
            stats["probe_match_after_map_grew"] = stats.get("probe_match_after_map_grew", 0) + 1
        k = o.op["k"]
        ref = WalkRef(ctx.store, ctx.model, s.cur_trace[:k], with_self)
        ideal = ref.start_states()
        sq = s.simmap.start_query
        given = None
        if sq is not None:
            if sq[0] == "edges":
                given = [("e", r[1], r[3]) for r in sq[3] if r[1] != r[3]]
            else:
                given = [("n", r[1]) for r in sq[3]]
        observed = ref.start_states(given) if given is not None else ideal
        if ref.fragile:
            stats["fragile"] = stats.get("fragile", 0) + 1
            return
        ideal_set = set(x for x, _ in ideal)
        obs_set = set(x for x, _ in observed)
        try:
            L, P, nwalks = ref.dfs(observed)
            stats["walks_enumerated"] = stats.get("walks_enumerated", 0) + nwalks
            L2, P2, _ = ref.dp(observed)
            if L != L2 or not num_equal(P, P2):
                raise AssertionError("reference DFS and DP disagree: %r %r vs %r %r" % (L, P, L2, P2))
        except TooLarge:
            stats["too_large"] = stats.get("too_large", 0) + 1
            L, P, _ = ref.dp(observed)
        if ref.fragile:
            stats["fragile"] = stats.get("fragile", 0) + 1
            return
        states, idx = o.ret
        # start-set attribution
        if ideal_set != obs_set:
            missing = sorted([(x[1], x[2]) for x in ideal_set - obs_set if x[0] == "e"], key=repr)
            extra = obs_set - ideal_set
            if extra or len(missing) != len(ideal_set - obs_set) or not oa.d6_signature(ctx, s, missing):
                vs.append(oa.V("C01/start-set-wrong", "ideal-observed=%r observed-ideal=%r" % (
                    sorted(map(repr, ideal_set - obs_set))[:4], sorted(map(repr, extra))[:4]), o))
            else:
                Li, Pi, _ = ref.dp(ideal)
                if (Li, Pi) != (L, P) and not (Li == L and num_equal(Pi, P)):
                    vs.append(oa.V("C01/start-set-incomplete/inmem-prefilter",
                                   "ideal optimum (%r,%r) observed-start optimum (%r,%r) missing=%r" % (Li, Pi, L, P, missing[:4]), o))
                stats["start_set_incomplete"] = stats.get("start_set_incomplete", 0) + 1
        # compare with the optimum reachable from the start set the map actually gave
        if L is None:
            if states:
                vs.append(oa.V("C01/result-without-admissible-start", "ret=%r" % ((states, idx),), o))
            stats["probe_no_start"] = stats.get("probe_no_start", 0) + 1
            return
        if not states:
            vs.append(oa.V("C01/empty-result-but-walk-exists", "L*=%r P*=%r" % (L, P), o))
            return
        if idx != L:
            vs.append(oa.V("C01/prefix-length", "idx=%r L*=%r" % (idx, L), o))
            return
        bestE = o.obs["bestE"]
        if not num_equal(bestE, P, 1e-9, 1e-9):
            vs.append(oa.V("C01/suboptimal" if bestE < P else "C01/better-than-any-admissible-walk",
                           "bestE=%r P*=%r idx=%r" % (bestE, P, idx), o))
            return
        walk = [_state_of(e.shortkey) for e in s.matcher.lattice_best]
        wp, why = ref.walk_prob(walk)
        if wp is None:
            if not ref.fragile:
                vs.append(oa.V("C01/returned-walk-not-admissible", why, o))
        elif not num_equal(wp, P, 1e-9, 1e-9):
            vs.append(oa.V("C01/returned-walk-not-optimal", "walk=%r P*=%r" % (wp, P), o))
        if L < k - 1:
            stats["probe_prefix_only"] = stats.get("probe_prefix_only", 0) + 1
        stats["sessions_judged"] = stats.get("sessions_judged", 0) + 1
    sess = run_session(doc, on_op)
    return result(vs, doc, sess, ctx, stats=stats)


# ----------------------------------------------------------------------------- C06
def gen_C06(rng, tier):
    cfg_kw = {"ne": True, "width": False, "second_order": False}
    if rng.random() < 0.45:
        cfg_kw.update({"family": "simple", "only_edges": False})     # node-and-edge states
    d = base_doc(rng, "single", latlon_p=0.05, cfg_kw=cfg_kw, fault_kinds=("relist", "dup", "clock"),
                 world_kw={"linked_p": 0.1})
    d["cfg"].pop("max_lattice_width", None)
    if rng.random() < 0.35:
        # a sharper noise model for non-emitting states makes detours through them attractive
        d["cfg"]["obs_noise_ne"] = d["cfg"]["obs_noise"] * rng.choice([0.15, 0.3, 0.5])
    return d


def _last_obs(sess):
    for o in reversed(sess.outcomes):
        if o.obs is not None:
            return o
    return None


def eval_C06(doc):
    vs = []
    on = run_session(doc)
    d2 = clone(doc)
    d2["cfg"]["non_emitting_states"] = False
    off = run_session(d2)
    a, b = _last_obs(on), _last_obs(off)
    stats = {}
    if a is None or b is None:
        stats["aborted_by_exception"] = 1
        return result(vs, doc, on, stats=stats)
    n = len(doc["trace"])
    ia = a.obs["idx"] if not a.obs["empty"] else -1
    ib = b.obs["idx"] if not b.obs["empty"] else -1
    if ia < ib:
        vs.append(oa.V("C06/shorter-prefix-with-non-emitting", "on=%r off=%r" % (ia, ib), a))
    elif ia == n - 1 and ib == n - 1:
        ea, eb = a.obs["bestE"], b.obs["bestE"]
        if ea < eb and not num_equal(ea, eb, 1e-9, 1e-9):
            vs.append(oa.V("C06/lower-probability-with-non-emitting", "on=%r off=%r" % (ea, eb), a))
        if ea > eb and not num_equal(ea, eb):
            stats["probe_ne_improved"] = 1
    if ia > ib:
        stats["probe_ne_longer"] = 1
    return result(vs, doc, on, stats=stats)


# ----------------------------------------------------------------------------- C07
def gen_C07(rng, tier):
    mode = rng.choice(["structure", "twin", "twin", "history"])
    cfg_kw = {"width": rng.choice([1, 1, 2, 2, 3, 4, 6]), "second_order": rng.random() < 0.25}
    prof = {"structure": rng.choice(["single", "widen", "extend", "history"]), "twin": "single",
            "history": "widen"}[mode]
    d = base_doc(rng, prof, latlon_p=0.03, cfg_kw=cfg_kw, world_kw={"n": rng.randint(4, 9)},
                 fault_kinds=("relist", "dup", "clock") if mode != "structure" else ALL_FAULTS)
    d["mode"] = mode
    return d


def eval_C07(doc):
    mode = doc.get("mode", "structure")
    vs = []
    stats = {}
    if mode == "structure":
        return eval_invariants(doc, [oa.check_c07_structure], skip_jumped=True)
    if mode == "twin":
        pr = run_session(doc)
        d2 = clone(doc)
        d2["cfg"].pop("max_lattice_width", None)
        un = run_session(d2)
        a, b = _last_obs(pr), _last_obs(un)
        if a is None or b is None:
            return result(vs, doc, pr, stats={"aborted_by_exception": 1})
        n = len(doc["trace"])
        ia = a.obs["idx"] if not a.obs["empty"] else -1
        ib = b.obs["idx"] if not b.obs["empty"] else -1
        W = doc["cfg"]["max_lattice_width"]
        # the candidates of the first observation do not depend on the width: every live start candidate of
        # the unpruned run must be a live candidate of the pruned run as well (expanded or postponed)
        try:
            k_pr = set(e.key for e in pr.matcher.lattice[0].values(0) if not e.stop)
            k_un = set(e.key for e in un.matcher.lattice[0].values(0) if not e.stop)
        except Exception:
            k_pr = k_un = set()
        if k_pr != k_un:
            vs.append(oa.V("C07/start-candidates-differ-from-unpruned", "only unpruned: %r only pruned: %r" % (
                sorted(map(repr, k_un - k_pr))[:4], sorted(map(repr, k_pr - k_un))[:4]), a))
        full = max_live_size(un.matcher)
        if W >= full:
            c = compare(a.obs, b.obs)
            stats["probe_width_covers_all"] = 1
            if c != "equal":
                vs.append(oa.V("C07/pruned-differs-although-width-covers-all/" + c, "W=%r largest=%r" % (W, full), a))
        else:
            if ia > ib:
                how = "with-non-emitting" if doc["cfg"].get("non_emitting_states", True) else "emitting-only"
                vs.append(oa.V("C07/pruned-longer-than-unpruned/" + how, "pruned=%r unpruned=%r" % (ia, ib), a))
            elif ia == n - 1 and ib == n - 1:
                ea, eb = a.obs["bestE"], b.obs["bestE"]
                if ea > eb and not num_equal(ea, eb, 1e-9, 1e-9):
                    if tie_upstream(doc["cfg"], pr, un):
                        stats["inconclusive_tie_upstream"] = 1
                    else:
                        how = "with-non-emitting" if doc["cfg"].get("non_emitting_states", True) else "emitting-only"
                        vs.append(oa.V("C07/pruned-more-probable-than-unpruned/" + how, "pruned=%r unpruned=%r" % (ea, eb), a))
                if ea < eb and not num_equal(ea, eb):
                    stats["probe_pruning_lost_optimum"] = 1
            if ia < ib:
                stats["probe_pruning_shortened"] = 1
        return result(vs, doc, pr, stats=stats)
    # history of increasing widths
    prev = None
    sess = run_session(doc)
    for o in sess.outcomes:
        if o.obs is None:
            prev = None
            continue
        if o.kind == "widen" and prev is not None and sess.k is not None:
            k = sess.k
            ip = prev.obs["idx"] if not prev.obs["empty"] else -1
            io = o.obs["idx"] if not o.obs["empty"] else -1
            if io < ip:
                vs.append(oa.V("C07/widening-shortened-match", "%r -> %r" % (ip, io), o))
            elif ip == k - 1 and io == k - 1:
                ep, eo = prev.obs["bestE"], o.obs["bestE"]
                if eo < ep and not num_equal(eo, ep, 1e-9, 1e-9):
                    vs.append(oa.V("C07/widening-lowered-probability", "%r -> %r" % (ep, eo), o))
                if eo > ep and not num_equal(eo, ep):
                    stats["probe_widening_improved"] = stats.get("probe_widening_improved", 0) + 1
            if io > ip:
                stats["probe_widening_lengthened"] = stats.get("probe_widening_lengthened", 0) + 1
        prev = o
    return result(vs, doc, sess, stats=stats)


# ----------------------------------------------------------------------------- C08
def gen_C08(rng, tier):
    d = base_doc(rng, "extend", latlon_p=0.05, trace_kw={"nobs": rng.choice([2, 3, 4, 5, 6, 7, 8])},
                 cfg_kw={"second_order": rng.random() < 0.25}, fault_kinds=("relist", "dup", "clock"),
                 world_kw={"linked_p": 0.1})
    if not d["world"].get("latlon") and rng.random() < 0.25:
        # the matcher object matched another, usually longer, trace before (a non-expanding match starts afresh,
        # whatever the object held; columns of the earlier trace beyond the new prefix must not survive)
        n2 = len(d["trace"]) + rng.choice([0, 1, 2, 3])
        t2 = gen.gen_trace(rng, d["world"], nobs=n2)
        if t2:
            d["trace2"] = t2
            d["ops"] = [{"op": "match", "k": len(t2), "unique": False, "alt": True}] + d["ops"]
    return d


def eval_C08(doc):
    vs = []
    stats = {}
    inc = run_session(doc)
    d2 = clone(doc)
    n = len(doc["trace"])
    uniq = doc["ops"][-1].get("unique", False)
    d2["ops"] = [{"op": "match", "k": doc["ops"][-1].get("k", n), "unique": uniq}]
    one = run_session(d2)
    a, b = inc.outcomes[-1], one.outcomes[-1]
    if a.exc is not None or b.exc is not None:
        if (a.exc is None) != (b.exc is None):
            vs.append(oa.V("C08/exception-only-one-way", "incremental=%r oneshot=%r" % (a.exc, b.exc), a))
        return result(vs, doc, inc, stats={"aborted_by_exception": 1})
    c = compare(a.obs, b.obs)
    if c.startswith("diff"):
        if tie_upstream(doc["cfg"], inc, one):
            stats["inconclusive_tie_upstream"] = 1
        else:
            vs.append(oa.V("C08/incremental-differs/" + c, "incremental=%r oneshot=%r" % (
                (a.obs["idx"], a.obs["bestE"], a.obs["tail"]), (b.obs["idx"], b.obs["bestE"], b.obs["tail"])), a))
    elif c.startswith("tie"):
        stats["ties"] = 1
    # probes: extension across an early stop, with width
    for o in inc.outcomes[:-1]:
        if o.obs is not None and (o.obs["empty"] or o.obs["idx"] < o.op.get("k", 0) - 1):
            stats["probe_extended_after_early_stop"] = 1
    if doc["cfg"].get("max_lattice_width"):
        stats["probe_with_width"] = 1
    if doc["ops"][0].get("alt"):
        stats["probe_matcher_used_for_longer_trace_before"] = 1
    return result(vs, doc, inc, stats=stats)


# ----------------------------------------------------------------------------- C10 (in-process halves)
def gen_C10(rng, tier):
    mode = rng.choice(["relist", "relist", "relist", "rematch", "rematch", "clock"])
    prof = "single" if mode == "relist" else rng.choice(["history", "widen", "extend"])
    cfg_kw = {"second_order": rng.random() < 0.25}
    if mode == "relist" and rng.random() < 0.4:
        # the listing order decides which of several candidates for a state arrives first: most visible
        # where an entry carries more than its probability (distance family with non-emitting states)
        cfg_kw.update({"family": "distance", "ne": True})
    d = base_doc(rng, prof, latlon_p=0.05, cfg_kw=cfg_kw,
                 world_kw={"linked_p": 0.1}, fault_kinds=("dup", "clock") if mode == "relist" else ("dup", "clock", "abort"))
    d["mode"] = mode
    d["salt"] = rng.randrange(1 << 30)
    return d


def eval_C10(doc):
    vs = []
    stats = {}
    mode = doc.get("mode", "relist")
    if mode == "relist":
        a = run_session(doc)
        d2 = clone(doc)
        d2["world"] = gen.relist(doc["world"], doc.get("salt", 0))
        b = run_session(d2)
        oa_, ob = a.outcomes[-1], b.outcomes[-1]
        if oa_.obs is None or ob.obs is None:
            if (oa_.exc is None) != (ob.exc is None):
                vs.append(oa.V("C10/relist/exception-only-one-way", "%r vs %r" % (oa_.exc, ob.exc), oa_))
            return result(vs, doc, a, stats={"aborted_by_exception": 1})
        c = compare(oa_.obs, ob.obs)
        if c.startswith("diff"):
            if tie_upstream(doc["cfg"], a, b):
                stats["inconclusive_tie_upstream"] = 1
            else:
                vs.append(oa.V("C10/relist/" + c, "%r vs %r" % ((oa_.obs["idx"], oa_.obs["bestE"], oa_.obs["tail"]),
                                                                (ob.obs["idx"], ob.obs["bestE"], ob.obs["tail"])), oa_))
        elif c.startswith("tie"):
            stats["ties"] = 1
        return result(vs, doc, a, stats=stats)
    if mode == "clock":
        # the same session under another wall clock (steps, jumps backwards and forwards): time is only logged
        a = run_session(doc)
        d2 = clone(doc)
        d2["faults"]["clock"] = doc.get("salt", 1) ^ 0x5a5a5a
        b = run_session(d2)
        for oa_, ob in zip(a.outcomes, b.outcomes):
            if (oa_.exc is None) != (ob.exc is None):
                vs.append(oa.V("C10/clock/exception-only-one-way", "%r vs %r" % (oa_.exc, ob.exc), oa_))
                break
            c = compare(oa_.obs, ob.obs, rel=0.0, abs_=0.0)
            if c != "equal":
                vs.append(oa.V("C10/clock/" + c, "result depends on the wall clock", oa_))
                break
        stats["probe_clock_twin"] = 1
        stats["clock_reads_twin"] = b.clock.reads if b.clock else 0
        return result(vs, doc, a, stats=stats)
    # rematch on a used matcher == fresh matcher with the same width
    d1 = clone(doc)
    last_k = None
    cur_alt = False
    for op in d1["ops"]:
        if op["op"] in ("match", "fresh"):
            cur_alt = bool(op.get("alt"))
        if "k" in op:
            last_k = op["k"]
    uniq = d1["ops"][-1].get("unique", False)
    d1["ops"].append({"op": "rematch", "k": last_k, "unique": uniq})
    used = run_session(d1)
    w = used.matcher.max_lattice_width if used.matcher is not None else None
    d2 = clone(doc)
    d2["ops"] = [{"op": "match", "k": last_k, "unique": uniq}]
    if cur_alt:
        d2["ops"][0]["alt"] = True
    d2["faults"] = {k: v for k, v in doc.get("faults", {}).items() if k in ("dup", "clock", "relist")}
    if w is not None:
        d2["cfg"]["max_lattice_width"] = w
    fresh = run_session(d2)
    a, b = used.outcomes[-1], fresh.outcomes[-1]
    if a.kind != "rematch" or a.obs is None or b.obs is None:
        return result(vs, doc, used, stats={"aborted_by_exception": 1})
    c = compare(a.obs, b.obs)
    if c != "equal":
        vs.append(oa.V("C10/history-dependence/" + c, "used=%r fresh=%r" % ((a.obs["idx"], a.obs["bestE"]), (b.obs["idx"], b.obs["bestE"])), a))
    stats["probe_rematch_after_ops"] = len(doc["ops"])
    return result(vs, doc, used, stats=stats)


def gen_C10H(rng, tier):
    """Scenario for the cross-process (hash seed) half: any history, no environment faults."""
    labels = rng.choice(["str", "str", "int", "bigint"])
    prof = rng.choice(["single", "single", "extend", "widen", "history", "anyops"])
    kw = {}
    if prof == "anyops":
        # the jump operation (continue_with_distance) needs an early stop: outlier trace with a cut-off
        kw = {"trace_kw": {"outlier_p": 0.7, "nobs": rng.choice([3, 4, 5, 6, 7])}, "cfg_kw": {"only_edges": True}}
    d = base_doc(rng, prof, latlon_p=0.05, world_kw={"linked_p": 0.1, "labels": labels},
                 fault_kinds=("dup", "clock"), sqlite_p=0.08 if labels != "str" else 0.0, pickle_p=0.03, **kw)
    if prof == "anyops":
        d["cfg"].setdefault("max_dist", 2.5 * d["world"].get("unit", 1.0))
    return d


def eval_C10H(doc):
    """Executed once per hash seed in different interpreters; returns the observations, which the
    driver compares across processes."""
    sess = run_session(doc)
    obs = []
    for o in sess.outcomes:
        obs.append({"kind": o.kind, "exc": type(o.exc).__name__ if o.exc is not None else None, "obs": o.obs})
    r = result([], doc, sess)
    r["observations"] = obs
    return r


# ----------------------------------------------------------------------------- C16
def _pow2_coords(world, trace, rng_quant=1024.0):
    """Snap all coordinates to multiples of 2^-10 (exactly representable, exact under 2^k scaling
    and integer translation)."""
    w = clone(world)
    for nd in w["nodes"]:
        nd[1] = [round(nd[1][0] * rng_quant) / rng_quant, round(nd[1][1] * rng_quant) / rng_quant]
    t = [[round(p[0] * rng_quant) / rng_quant, round(p[1] * rng_quant) / rng_quant] for p in trace]
    return w, t


DIST_KEYS = ("obs_noise", "obs_noise_ne", "max_dist", "max_dist_init", "dist_noise", "dist_noise_ne")


def gen_C16(rng, tier):
    tr = rng.choice(["relabel", "relabel", "swap", "scale", "translate"])
    cfg_kw = {"second_order": rng.random() < 0.25}
    if tr == "translate":
        cfg_kw["width"] = False
    prof = rng.choice(["single", "single", "extend", "widen"]) if tr != "translate" else rng.choice(["single", "extend"])
    stored = rng.random() < 0.15      # the planar map is a stored one (SQLite file / pickle), reopened mid-session
    d = base_doc(rng, prof, latlon_p=0.0, sqlite_p=0.7 if stored else 0.0, pickle_p=0.3 if stored else 0.0, big_p=0.0,
                 cfg_kw=cfg_kw, world_kw={"linked_p": 0.1}, fault_kinds=("dup", "clock"))
    if stored and d["backend"] in ("sqlite", "sqlite_bulk", "pickle"):
        if len(d["ops"]) == 1:
            first = dict(d["ops"][0])
            first["k"] = max(1, first["k"] // 2)
            d["ops"] = [first, {"op": "match", "k": d["ops"][0]["k"], "unique": d["ops"][0].get("unique", False)}]
        d["faults"]["restart_before"] = [1]
    if tr == "translate":
        d["cfg"].pop("max_lattice_width", None)
        d["ops"] = [op for op in d["ops"] if op["op"] != "widen"]
    d["world"], d["trace"] = _pow2_coords(d["world"], d["trace"])
    # distance parameters as dyadic rationals as well
    for k in DIST_KEYS:
        if k in d["cfg"]:
            d["cfg"][k] = round(d["cfg"][k] * 64) / 64 or 1 / 64
    k = rng.randint(-6, 12)
    if tr == "scale" and rng.random() < 0.15:
        k = rng.randint(-18, -11)      # very small units: the repository's absolute tolerances come into play (D18)
    d["transform"] = {"kind": tr, "salt": rng.randrange(1 << 30), "k": k,
                      "dy": float(rng.randrange(-2 ** 18, 2 ** 18)), "dx": float(rng.randrange(-2 ** 18, 2 ** 18))}
    return d


def transform_C16(doc):
    import random as _random
    t = doc["transform"]
    d2 = clone(doc)
    d2.pop("transform")
    ren = None
    if t["kind"] == "relabel":
        r = _random.Random(gen.derive("relabel", t["salt"]))
        labels = [nd[0] for nd in doc["world"]["nodes"]]
        if isinstance(labels[0], int):
            new = r.sample(range(1, 10 ** 6), len(labels))
            if t["salt"] % 4 == 1:
                # zero, negative and very large integers are names like any other
                new = r.sample(list(range(-len(labels), len(labels) + 1)) + [2 ** 31, -2 ** 31, 2 ** 62, -2 ** 62 + 1], len(labels))
        else:
            new = ["q%d" % v for v in r.sample(range(1000), len(labels))]
            if t["salt"] % 4 == 0:
                new = gen.hyphen_labels(len(labels))
                r.shuffle(new)
            elif t["salt"] % 4 == 1 and len(labels) <= 20:
                # strings that look like numbers, contain the characters the library joins names with, or differ
                # only in case or surrounding blanks
                new = r.sample(["0", "1", "-1", "01", "1.0", "a_b", "a b", "_", "-", "None", "1_2", "b_a", "A", "a", " a",
                                "a ", "O0", "0_0", "0-0", "é"], len(labels))
        mp = dict(zip(labels, new))
        w = d2["world"]
        w["nodes"] = [[mp[l], p, [mp[x] for x in nb]] for l, p, nb in w["nodes"]]
        w["linked"] = [[[mp[e[0]], mp[e[1]]], [[mp[f[0]], mp[f[1]]] for f in fs]] for e, fs in w.get("linked", [])]
        d2["world"] = gen.relist(w, t["salt"])
        inv = {v: k for k, v in mp.items()}

        def ren(s):
            if isinstance(s, list):
                return [inv[x] for x in s]
            return inv[s]
    elif t["kind"] == "swap":
        for nd in d2["world"]["nodes"]:
            nd[1] = [nd[1][1], nd[1][0]]
        d2["trace"] = [[p[1], p[0]] + list(p[2:]) for p in d2["trace"]]
    elif t["kind"] == "scale":
        f = 2.0 ** t["k"]
        for nd in d2["world"]["nodes"]:
            nd[1] = [nd[1][0] * f, nd[1][1] * f]
        d2["trace"] = [[p[0] * f, p[1] * f] + list(p[2:]) for p in d2["trace"]]
        for k in DIST_KEYS:
            if k in d2["cfg"]:
                d2["cfg"][k] = d2["cfg"][k] * f
        for op in d2["ops"]:
            if op.get("max_dist") is not None:
                op["max_dist"] = op["max_dist"] * f
        d2["world"]["unit"] = d2["world"].get("unit", 1.0) * f
    elif t["kind"] == "translate":
        for nd in d2["world"]["nodes"]:
            nd[1] = [nd[1][0] + t["dy"], nd[1][1] + t["dx"]]
        d2["trace"] = [[p[0] + t["dy"], p[1] + t["dx"]] + list(p[2:]) for p in d2["trace"]]
    return d2, ren


def threshold_fragile(cfg, sess, rel=1e-9):
    """Is some live lattice entry within rounding distance of a cut-off (max_dist, max_dist_init,
    min_prob_norm)?  Such a decision is made on the last bits of a float (fragility guard, DESIGN 4)."""
    m = sess.matcher
    if m is None or not m.lattice:
        return False
    md, mdi, mpn = cfg.get("max_dist"), cfg.get("max_dist_init"), cfg.get("min_prob_norm")
    lpn = math.log(mpn) if mpn else None
    for ci, col in m.lattice.items():
        for layer in col.o:
            for e in layer.values():
                for thr in (md, mdi if (ci == 0 and e.obs_ne == 0) else None):
                    if thr and abs(e.dist_obs - thr) <= rel * (1 + thr):
                        return True
                if lpn is not None and abs(e.logprob / e.length - lpn) <= rel * (1 + abs(lpn)):
                    return True
    return False


def edge_id_collision(doc):
    """Listed finding D21: SqliteMap stores a road under the identifier hash((a, b)).  Returns two different roads
    of the document's map with the same identifier (in CPython hash(-1) == hash(-2), and integers are hashed
    modulo 2**61 - 1), or None.  Only meaningful for the SQLite backends."""
    if not str(doc.get("backend", "")).startswith("sqlite"):
        return None
    seen = {}
    for l, _, nb in doc["world"]["nodes"]:
        for b in nb:
            e = (l, b)
            h = e.__hash__()
            if h in seen and seen[h] != e:
                return (seen[h], e)
            seen[h] = e
    return None


def eval_C16(doc):
    coll = edge_id_collision(doc)
    if coll is None and doc["transform"]["kind"] == "relabel":
        coll = edge_id_collision(transform_C16(doc)[0])
    if coll is None:
        return _eval_C16(doc)
    # whatever goes wrong on a stored map two of whose roads share an identifier is that finding
    cls = "C16/relabel/sqlite-edge-id-collision"
    try:
        res = _eval_C16(doc)
    except Exception as exc:
        import traceback
        if not any("leuvenmapmatching" in fr.filename and "/verif/" not in fr.filename
                   for fr in traceback.extract_tb(exc.__traceback__)):
            raise
        return {"violations": [{"cls": cls, "detail": "roads %r and %r share an identifier: %s: %s" % (
            coll[0], coll[1], type(exc).__name__, str(exc)[:120]), "op": -1, "opkind": "?"}],
            "sig": "raised|edge-id-collision", "nontrivial": True, "stats": {"ops": len(doc.get("ops", [])), "probe_edge_id_collision": 1}}
    for v in res["violations"]:
        v["detail"] = "roads %r and %r share an identifier; %s: %s" % (coll[0], coll[1], v["cls"], v["detail"][:200])
        v["cls"] = cls
    res["stats"]["probe_edge_id_collision"] = 1
    return res


def _eval_C16(doc):
    vs = []
    stats = {}
    d1 = clone(doc)
    t = d1.pop("transform")
    d2, ren = transform_C16(doc)
    # pruning decisions made on the last bits of a float are looked for right after every operation
    # (a later widening removes the evidence from the lattice)
    near = {"a": False, "b": False}

    def watch(which):
        def on_op(sess_, out_):
            if sess_.matcher is not None and near_tie_at_pruning_boundary(sess_.matcher):
                near[which] = True
        return on_op
    a = run_session(d1, on_op=watch("a"))
    b = run_session(d2, on_op=watch("b"))
    kind = t["kind"]
    # scale: the repository's absolute 1e-8 tolerances are the only scale-dependent quantities
    rel = 1e-9
    for oa_, ob in zip(a.outcomes, b.outcomes):
        if oa_.obs is None or ob.obs is None:
            if (oa_.exc is None) != (ob.exc is None):
                vs.append(oa.V("C16/%s/exception-only-one-way" % kind, "%r vs %r" % (oa_.exc, ob.exc), oa_))
            stats["aborted_by_exception"] = 1
            break
        oo = ob.obs
        if kind == "scale":
            pass
        c = compare(oa_.obs, oo, rel=rel if kind != "translate" else 1e-7, abs_=1e-12 if kind != "translate" else 1e-9,
                    path_map=ren)
        if c.startswith("diff"):
            if tie_upstream(doc["cfg"], a, b):
                stats["inconclusive_tie_upstream"] = 1
            elif kind == "scale" and t["k"] <= -10:
                # listed finding D18: with roads shorter than about 1e-3 units the absolute 1e-8 tolerances of the
                # planar geometry (parallel test on the cross product, zero-length test) change the answers
                vs.append(oa.V("C16/scale/absolute-tolerance-at-small-scale", "k=%d %s: %r vs %r" % (
                    t["k"], c, (oa_.obs["idx"], oa_.obs["bestE"]), (oo["idx"], oo["bestE"])), oa_))
            elif kind in ("scale", "swap", "translate") and (threshold_fragile(d1["cfg"], a) or threshold_fragile(d2["cfg"], b)):
                # a state lies within rounding distance of a cut-off (e.g. exactly max_dist away on a grid):
                # the transformation changes the last bits of the distance and the exact comparison flips
                stats["fragile"] = stats.get("fragile", 0) + 1
            elif kind in ("scale", "swap") and (near["a"] or near["b"]):
                # listed finding: the transformation changes last bits of a probability and width pruning
                # (exact ties only) turns that into another candidate set
                vs.append(oa.V("C16/%s/near-tie-at-pruning-boundary" % kind, "%s: %r vs %r" % (
                    c, (oa_.obs["idx"], oa_.obs["bestE"], oa_.obs["tail"]), (oo["idx"], oo["bestE"], oo["tail"])), oa_))
            else:
                vs.append(oa.V("C16/%s/%s" % (kind, c), "%r vs %r" % ((oa_.obs["idx"], oa_.obs["bestE"], oa_.obs["tail"]),
                                                                   (oo["idx"], oo["bestE"], oo["tail"])), oa_))
            break
        elif c.startswith("tie"):
            stats["ties"] = stats.get("ties", 0) + 1
    stats["transform_" + kind] = 1
    return result(vs, doc, a, stats=stats, extra_sig=kind)


# ----------------------------------------------------------------------------- C19
def gen_C19(rng, tier):
    return base_doc(rng, rng.choice(["single", "single", "extend", "widen", "history"]), latlon_p=0.05,
                    world_kw={"linked_p": 0.1}, fault_kinds=("dup", "clock"))


def eval_C19(doc):
    vs = []
    stats = {}
    a = run_session(doc, log_level="ERROR")
    b = run_session(doc, log_level="DEBUG")
    stats["debug_log_records"] = b.log_records
    for oa_, ob in zip(a.outcomes, b.outcomes):
        if (oa_.exc is None) != (ob.exc is None):
            vs.append(oa.V("C19/exception-only-one-way", "error-level=%r debug-level=%r" % (oa_.exc, ob.exc), oa_))
            break
        if oa_.obs is None or ob.obs is None:
            if (oa_.ret is None) != (ob.ret is None) or (oa_.ret is not None and oa_.ret != ob.ret):
                vs.append(oa.V("C19/return-differs", "error-level=%r debug-level=%r" % (oa_.ret, ob.ret), oa_))
                break
            continue
        c = compare(oa_.obs, ob.obs, rel=0.0, abs_=0.0)
        if c != "equal":
            what = "no-start" if (oa_.obs["empty"] or ob.obs["empty"]) else c
            vs.append(oa.V("C19/result-differs/" + what, "error-level=%r debug-level=%r" % (
                (oa_.ret[1], oa_.obs["bestE"], oa_.obs["tail"]), (ob.ret[1] if ob.ret else None, ob.obs["bestE"], ob.obs["tail"])), oa_))
            break
    return result(vs, doc, a, stats=stats)


# ----------------------------------------------------------------------------- C15
def gen_C15(rng, tier):
    fam = rng.choice(["simple", "distance"])
    # "same parameters" includes the default avoid_goingback=True: 40 % of the twins are second order
    cfg_kw = {"family": fam, "ne": False, "width": False, "second_order": rng.random() < 0.4, "cutoffs": False}
    if fam == "simple":
        cfg_kw["only_edges"] = rng.random() < 0.7
    world = gen.gen_world(rng, unit=rng.choice([10.0, 15.0, 20.0]), n=rng.randint(3, 7),
                          shape=rng.choice(["generic", "generic", "ring", "grid"]))
    # keep the world below ~150 m
    trace = gen.gen_trace(rng, world, nobs=rng.randint(1, 7), perturb=False,
                          noise=rng.choice([0.0, 2.0, 5.0, 8.0]), exact_p=0.0)
    cfg = gen.gen_config(rng, world, **cfg_kw)
    cfg["obs_noise"] = rng.uniform(8.0, 30.0)
    cfg.pop("max_lattice_width", None)
    if "dist_noise" in cfg:
        cfg["dist_noise"] = cfg["obs_noise"] * rng.choice([1.0, 2.0])
    lat0, lon0 = rng.uniform(-59.5, 59.5), rng.uniform(-179.0, 179.0)
    ops = [{"op": "match", "k": len(trace), "unique": False}]
    faults = gen.gen_faults(rng, 1, kinds=("dup", "clock"))
    d = {"kind": "A", "world": world, "trace": trace, "cfg": cfg, "ops": ops, "faults": faults,
         "backend": rng.choice(["inmem", "inmem", "inmem_api", "sqlite"]) if isinstance(world["nodes"][0][0], int) else "inmem",
         "log": "ERROR", "place": [lat0, lon0]}
    hs = random.Random(gen.derive("c15-antimeridian", repr(rng.getstate())))
    if d["backend"] != "sqlite" and hs.random() < 0.08:
        # the street lies across longitude +-180 (not on the SQLite backend, whose edge index is known to be wrong
        # there: listed finding D19 of C11)
        d["place"][1] = hs.choice([179.9996, -179.9996, 179.99995, -179.99998, 180.0])
    return d


def eval_C15(doc):
    vs = []
    stats = {}
    d1 = clone(doc)
    lat0, lon0 = d1.pop("place")
    d2 = clone(d1)
    d2["world"], d2["trace"] = gen.to_latlon(d1["world"], d1["trace"], lat0, lon0)
    a = run_session(d1)
    b = run_session(d2)
    oa_, ob = a.outcomes[-1], b.outcomes[-1]
    if not d1["cfg"].get("only_edges", True):
        # node-and-edge mode discards an edge state whose relative position is (nearly) 0 or 1; the
        # geodesic projection is only accurate to ~0.2 m along the edge, so a projection that falls
        # within half a metre of an end point is a threshold decision (fragility guard, DESIGN section 4)
        st = RefStore.from_world(d1["world"])
        for ea_, eb_ in st.edges():
            pa, pb = st.loc[ea_], st.loc[eb_]
            l2 = (pa[0] - pb[0]) ** 2 + (pa[1] - pb[1]) ** 2
            if l2 == 0:
                continue
            for p in d1["trace"]:
                u = ((p[0] - pa[0]) * (pb[0] - pa[0]) + (p[1] - pa[1]) * (pb[1] - pa[1])) / l2
                if min(abs(u), abs(u - 1.0)) * math.sqrt(l2) < 0.5:
                    return result(vs, doc, a, stats={"fragile": 1})
    if d1["cfg"].get("avoid_goingback", True):
        # the going-back-on-edge penalty compares the relative positions of two consecutive observations
        # on the same edge; the geodesic projection is accurate to ~0.2 m along the edge, so two
        # projections closer than half a metre (and not both clamped to the same end) are a threshold
        # decision (fragility guard)
        st = RefStore.from_world(d1["world"])
        for ea_, eb_ in st.edges():
            pa, pb = st.loc[ea_], st.loc[eb_]
            l2 = (pa[0] - pb[0]) ** 2 + (pa[1] - pb[1]) ** 2
            if l2 == 0:
                continue
            us = [((p[0] - pa[0]) * (pb[0] - pa[0]) + (p[1] - pa[1]) * (pb[1] - pa[1])) / l2 for p in d1["trace"]]
            for u1, u2 in zip(us, us[1:]):
                c1, c2 = min(1.0, max(0.0, u1)), min(1.0, max(0.0, u2))
                mrg = 0.5 / math.sqrt(l2)
                clearly_same_end = (u1 <= -mrg and u2 <= -mrg) or (u1 >= 1 + mrg and u2 >= 1 + mrg)
                if not clearly_same_end and abs(c1 - c2) * math.sqrt(l2) < 0.5:
                    return result(vs, doc, a, stats={"fragile": 1})
    if ob.exc is not None and oa_.exc is None:
        vs.append(oa.V("C15/latlon-raises/%s" % type(ob.exc).__name__, "%s" % (ob.exc,), ob))
        return result(vs, doc, a, stats=stats)
    if oa_.obs is None or ob.obs is None:
        return result(vs, doc, a, stats={"aborted_by_exception": 1})
    if oa_.obs["empty"] != ob.obs["empty"] or oa_.obs["idx"] != ob.obs["idx"]:
        vs.append(oa.V("C15/index-differs", "planar=%r latlon=%r" % (oa_.ret[1], ob.ret[1]), oa_))
    elif not oa_.obs["empty"]:
        ea, eb = oa_.obs["bestE"], ob.obs["bestE"]
        tol = 0.0025 * abs(ea) + 0.0125
        stats["max_dev_vs_tol_permille"] = int(1000 * abs(ea - eb) / tol)
        if abs(ea - eb) > tol:
            vs.append(oa.V("C15/probability-differs", "planar=%r latlon=%r tol=%r lat=%r" % (ea, eb, tol, lat0), oa_))
    return result(vs, doc, a, stats=stats)


# ----------------------------------------------------------------------------- C17
def gen_C17(rng, tier):
    mode = rng.choice(["total", "total", "triples"])
    latlon = rng.random() < 0.3
    shape = rng.choice(["generic", "grid", "grid", "line", "line", "ring"])
    d = base_doc(rng, rng.choice(["single", "single", "extend", "widen"]), latlon_p=1.0 if latlon else 0.0,
                 world_kw={"shape": shape, "zero_len_p": 0.25, "linked_p": 0.1},
                 trace_kw={"exact_p": 0.5, "noise": rng.choice([0.0, 0.0, 0.1, 0.5]) * (20.0 if latlon else 1.0)},
                 fault_kinds=("dup", "clock", "relist", "abort"), big_p=0.05)
    # (abort: after an injected map failure the retried call must complete without raising)
    # every noise value: the positive-rounding guard depends on sigma
    unit = 20.0 if latlon else 1.0
    d["cfg"]["obs_noise"] = rng.uniform(0.05, 5.0) * unit
    if "obs_noise_ne" in d["cfg"]:
        d["cfg"]["obs_noise_ne"] = rng.uniform(0.05, 5.0) * unit
    d["mode"] = mode
    if mode == "triples":
        t0 = rng.uniform(0, 1e9)
        d["times"] = [t0 + 5.0 * i + rng.uniform(0, 3) for i in range(len(d["trace"]))]
    return d


def eval_C17(doc):
    vs = []
    stats = {}
    d1 = clone(doc)
    mode = d1.pop("mode", "total")
    times = d1.pop("times", None)
    a = run_session(d1)
    for o in a.outcomes:
        if o.exc is not None and not o.injected:
            import traceback
            tb = traceback.extract_tb(o.exc.__traceback__)
            fn = "?"
            for fr in tb:
                if "leuvenmapmatching" in fr.filename:
                    fn = fr.name
            vs.append(oa.V("C17/raises/%s/%s" % (type(o.exc).__name__, fn), "%s" % (o.exc,), o))
            break
        if o.exc is None and (not isinstance(o.ret, tuple) or len(o.ret) != 2 or not isinstance(o.ret[1], int)
                              or not isinstance(o.ret[0], list)):
            vs.append(oa.V("C17/return-shape", "%r" % (o.ret,), o))
            break
    if mode == "triples" and not vs:
        d2 = clone(d1)
        d2["trace"] = [list(p[:2]) + [t] for p, t in zip(d1["trace"], times)]
        b = run_session(d2)
        for oa_, ob in zip(a.outcomes, b.outcomes):
            if ob.exc is not None and not ob.injected:
                import traceback
                tb = traceback.extract_tb(ob.exc.__traceback__)
                fn = "?"
                for fr in tb:
                    if "leuvenmapmatching" in fr.filename:
                        fn = fr.name
                vs.append(oa.V("C17/triples-raise/%s/%s" % (type(ob.exc).__name__, fn), "%s" % (ob.exc,), ob))
                break
            c = compare(oa_.obs, ob.obs, rel=0.0, abs_=0.0)
            if c != "equal":
                vs.append(oa.V("C17/triples-differ/" + c, "", oa_))
                break
        stats["probe_triples"] = 1
    tr = doc["trace"]
    store = RefStore.from_world(doc["world"])
    on_node = sum(1 for p in tr if any(tuple(p[:2]) == q for q in store.loc.values()))
    if on_node:
        stats["probe_obs_on_node"] = on_node
    if any(a_ == b_ for a_, b_ in zip(tr, tr[1:])):
        stats["probe_repeated_obs"] = 1
    locs = list(store.loc.values())
    if len(set(locs)) < len(locs):
        stats["probe_zero_length_road"] = 1
    return result(vs, doc, a, stats=stats, extra_sig=mode)
