"""Property id -> (generator, evaluator)."""
import traceback

from . import props_a


def _guard(prop, ev):
    """An exception raised by the code under test outside a judged operation (while a map is built, a
    matcher constructed, a view read) is reported as a violation of the property being checked - the
    simulator expected an answer - and never as a harness error.  Exceptions that do not pass through the
    repository are bugs of the harness and propagate."""
    def wrapper(doc):
        try:
            return ev(doc)
        except Exception as exc:
            fn = None
            for fr in traceback.extract_tb(exc.__traceback__):
                if "leuvenmapmatching" in fr.filename and "/verif/" not in fr.filename:
                    fn = fr.name
            if fn is None:
                raise
            pid = "C10" if prop == "C10H" else prop
            v = {"cls": "%s/raises-outside-operation/%s/%s" % (pid, type(exc).__name__, fn), "detail": str(exc)[:200],
                 "op": -1, "opkind": "?"}
            return {"violations": [v], "sig": "raised|" + fn, "nontrivial": True, "stats": {"ops": len(doc.get("ops", []))}}
    wrapper.__name__ = getattr(ev, "__name__", "eval")
    return wrapper


REG = {}
for _pid in ("C01", "C02", "C03", "C04", "C05", "C06", "C07", "C08", "C09", "C10", "C10H", "C15", "C16", "C17", "C19"):
    REG[_pid] = (getattr(props_a, "gen_" + _pid), _guard(_pid, getattr(props_a, "eval_" + _pid)))

from . import props_b  # noqa: E402
for _pid in ("C11", "C12", "C18"):
    REG[_pid] = (getattr(props_b, "gen_" + _pid), _guard(_pid, getattr(props_b, "eval_" + _pid)))
