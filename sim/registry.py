"""Property id -> (generator, evaluator)."""
from . import props_a

REG = {}
for _pid in ("C01", "C02", "C03", "C04", "C05", "C06", "C07", "C08", "C09", "C10", "C10H", "C15", "C16", "C17", "C19"):
    REG[_pid] = (getattr(props_a, "gen_" + _pid), getattr(props_a, "eval_" + _pid))

try:
    from . import props_b
    for _pid in ("C11", "C12", "C18"):
        REG[_pid] = (getattr(props_b, "gen_" + _pid), getattr(props_b, "eval_" + _pid))
except ImportError:
    pass
