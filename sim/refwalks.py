"""R-walks: exhaustive reference for emitting-only, first-order matching (C01).

Enumerates every admissible walk (DFS) and, independently, runs a dynamic programme over the
same reference model; the two must agree (otherwise the harness itself is broken)."""
import math

from .refscore import Model, Rec

INF = float("inf")


class TooLarge(Exception):
    pass


class WalkRef:
    def __init__(self, store, model, trace, with_self):
        self.store = store
        self.model = model
        self.geom = store.geom
        self.trace = [(p[0], p[1]) for p in trace]
        self.with_self = with_self
        self.fragile = False
        self.eps_d = 1e-7 * (1 + store.max_abs()) if not store.latlon else 0.3

    # -- states: ('n', a) or ('e', a, b)
    def successors(self, s):
        st = self.store
        if self.model.only_edges:
            _, a, b = s
            out = [s]
            seen = {s}
            for c in st.out_nodes(b, self.with_self):
                cand = ("e", b, c)
                if c != b and b != a and cand not in seen and st.has_edge(b, c):
                    seen.add(cand)
                    out.append(cand)
            for (c, d) in st.linked.get((a, b), ()):
                cand = ("e", c, d)
                if d != b and c != a and cand not in seen:
                    seen.add(cand)
                    out.append(cand)
            return out
        if s[0] == "n":
            a = s[1]
            out = []
            seen = set()
            for n in st.out_nodes(a, self.with_self):
                c = ("n", n)
                if c not in seen:
                    seen.add(c)
                    out.append(c)
                if n != a:
                    c = ("e", a, n)
                    if c not in seen:
                        seen.add(c)
                        out.append(c)
            return out
        _, a, b = s
        return [s, ("n", b)]

    def rec(self, s, t):
        """State s matched to observation t -> Rec or None if inadmissible by geometry."""
        o = self.trace[t]
        st = self.store
        if s[0] == "n":
            p = st.loc[s[1]]
            return Rec(s[1], None, p, 0.0, None, o, False, self.geom.dist(o, p))
        a, b = s[1], s[2]
        d, q, tt = self.geom.project(o, st.loc[a], st.loc[b])
        if not self.model.only_edges:
            for v in (abs(tt), abs(tt - 1.0)):
                if abs(v - 1e-8) < 1e-9:
                    self.fragile = True
                if v <= 1e-8:
                    return None
        return Rec(a, b, q, tt, st.loc[b], o, False, d)

    def _guard(self, r, first):
        m = self.model
        thrs = [m.max_dist] + ([m.max_dist_init] if first else [])
        for thr in thrs:
            if thr != INF and abs(r.dist - thr) <= self.eps_d:
                self.fragile = True
        if m.min_lpn != -INF:
            v = r.lp if first else r.lp / r.length
            slack = 1e-7 * (1 + abs(m.min_lpn))
            if self.store.latlon:
                slack += abs(m.emission(r.dist + 0.3, False) - m.emission(r.dist, False)) * 2
            if abs(v - m.min_lpn) <= slack:
                self.fragile = True

    def start_states(self, given=None):
        """[(state, Rec)] admissible at observation 0."""
        m = self.model
        if given is None:
            if m.only_edges:
                cands = [("e", a, b) for a, b in self.store.edges()]
            else:
                cands = [("n", a) for a in self.store.loc]
        else:
            cands = given
        out = []
        for s in cands:
            if s[0] == "e":
                o = self.trace[0]
                d, q, tt = self.geom.project(o, self.store.loc[s[1]], self.store.loc[s[2]])
                r = Rec(s[1], s[2], q, tt, self.store.loc[s[2]], o, False, d)
            else:
                r = self.rec(s, 0)
            m.score_first(r)
            self._guard(r, True)
            if given is None and not (r.dist < m.max_dist_init):
                continue
            if m.stopped_first(r):
                continue
            out.append((s, r))
        return out

    def step(self, r_prev, s, t):
        r = self.rec(s, t)
        if r is None:
            return None
        self.model.score_next(None, r_prev, r)
        self._guard(r, False)
        if self.model.stopped(r):
            return None
        return r

    # -- dynamic programme
    def dp(self, starts):
        n = len(self.trace)
        col = {}
        for s, r in starts:
            if s not in col or r.lp > col[s].lp:
                col[s] = r
        if not col:
            return None, None, None
        last = 0
        for t in range(1, n):
            nxt = {}
            for s, r in col.items():
                for s2 in self.successors(s):
                    r2 = self.step(r, s2, t)
                    if r2 is None:
                        continue
                    if s2 not in nxt or r2.lp > nxt[s2].lp:
                        nxt[s2] = r2
            if not nxt:
                break
            col = nxt
            last = t
        best = max(col.values(), key=lambda r: r.lp)
        return last, best.lp, len(col)

    # -- exhaustive enumeration
    def dfs(self, starts, cap=200000):
        n = len(self.trace)
        best = [-1, -INF]
        count = [0]

        def go(s, r, t):
            count[0] += 1
            if count[0] > cap:
                raise TooLarge()
            if t > best[0] or (t == best[0] and r.lp > best[1]):
                best[0], best[1] = t, r.lp
            if t + 1 >= n:
                return
            for s2 in self.successors(s):
                r2 = self.step(r, s2, t + 1)
                if r2 is not None:
                    go(s2, r2, t + 1)
        for s, r in starts:
            go(s, r, 0)
        if best[0] < 0:
            return None, None, 0
        return best[0], best[1], count[0]

    def walk_prob(self, states):
        """Probability of a given emitting-only walk under the reference, or a reason why it is
        not admissible."""
        prev = None
        for t, s in enumerate(states):
            if t == 0:
                if s[0] == "e":
                    if not self.store.has_edge(s[1], s[2]):
                        return None, "start state not in map"
                    o = self.trace[0]
                    d, q, tt = self.geom.project(o, self.store.loc[s[1]], self.store.loc[s[2]])
                    r = Rec(s[1], s[2], q, tt, self.store.loc[s[2]], o, False, d)
                else:
                    if s[1] not in self.store.loc:
                        return None, "start state not in map"
                    r = self.rec(s, 0)
                self.model.score_first(r)
                if not (r.dist < self.model.max_dist_init) or self.model.stopped_first(r):
                    return None, "start state not admissible"
            else:
                if s not in self.successors(prev_s):
                    return None, "move %r -> %r not offered" % (prev_s, s)
                r = self.step(prev, s, t)
                if r is None:
                    return None, "state %r not admissible at %d" % (s, t)
            prev, prev_s = r, s
        return prev.lp, None
