"""Twin-session machinery: run two sessions that must agree and compare their canonical
observations."""
import copy
import math

from .world_a import run_session
from .refscore import close


def clone(doc):
    return copy.deepcopy(doc)


def run_obs(doc, log_level=None, on_op=None):
    sess = run_session(doc, on_op=on_op, log_level=log_level)
    return sess


def numeric_sig(o):
    return (o["idx"], o["bestE"], o["tail"], o["tailE"])


def num_equal(a, b, rel=1e-9, abs_=1e-12):
    if a is None or b is None:
        return a is None and b is None
    if isinstance(a, (list, tuple)):
        if not isinstance(b, (list, tuple)) or len(a) != len(b):
            return False
        return all(num_equal(x, y, rel, abs_) for x, y in zip(a, b))
    if isinstance(a, float) or isinstance(b, float):
        return close(float(a), float(b), rel, abs_)
    return a == b


def compare(a, b, rel=1e-9, abs_=1e-12, path_map=None):
    """Compare two canonical observations.  Returns 'equal', 'tie' (same numbers, other path)
    or 'diff:<what>'.  path_map renames b's states before comparing (relabelling twins)."""
    if (a is None) != (b is None):
        return "diff:outcome"
    if a is None:
        return "equal"
    if a["empty"] != b["empty"] or a["none"] != b["none"]:
        return "diff:empty"
    if a["idx"] != b["idx"]:
        return "diff:idx"
    if not num_equal(a["bestE"], b["bestE"], rel, abs_):
        return "diff:bestE"
    if not num_equal(a["tail"], b["tail"], rel, abs_):
        return "diff:tail"
    if not num_equal(a["tailE"], b["tailE"], rel, abs_):
        # the final entries are equally probable (tail agrees) but descend from different emitting
        # entries: a choice among exactly equally probable alternatives
        return "tie"
    pb = b["path"]
    sb = b["states"]
    if path_map is not None:
        pb = [[path_map(s), o, n] for s, o, n in pb]
        sb = None if sb is None else [path_map(s) for s in sb]
    if a["path"] != pb or a["states"] != sb or not num_equal(a["path_lp"], b["path_lp"], rel, abs_):
        # index, best probability and the probability of the returned path agree: an exactly
        # equally probable alternative was chosen
        return "tie"
    return "equal"


def outcome_kind(o):
    if o.exc is not None:
        return "exc:" + type(o.exc).__name__
    return "ok"


def max_live_size(matcher):
    """Largest number of live (non-stopped) entries in any column/layer."""
    mx = 0
    for col in (matcher.lattice or {}).values():
        for layer in col.o:
            mx = max(mx, sum(1 for e in layer.values() if not e.stop))
    return mx


def near_tie_at_pruning_boundary(matcher, rel=1e-9):
    """Is there a column/layer in which an expanded and a postponed live entry have log-probabilities
    that differ, but by less than rounding-level noise (|d| <= rel*(1+|lp|))?  Width pruning extends
    over EXACT ties only, so such a pair is a decision made on the last bits of a float."""
    E = matcher.expand_now
    if matcher.max_lattice_width is None:
        return False
    for col in (matcher.lattice or {}).values():
        for layer in col.o:
            live = sorted((e for e in layer.values() if not e.stop), key=lambda e: -e.logprob)
            for a, b in zip(live, live[1:]):
                d = abs(a.logprob - b.logprob)
                if 0 < d <= rel * (1 + abs(a.logprob)) and ((a.delayed <= E) != (b.delayed <= E)):
                    return True
    return False


def has_exact_tie(matcher):
    """Two live entries of one column/layer with exactly the same log-probability."""
    for col in (matcher.lattice or {}).values():
        for layer in col.o:
            seen = set()
            for e in layer.values():
                if e.stop:
                    continue
                v = float(e.logprob)
                if v in seen:
                    return True
                seen.add(v)
    return False


def history_dependent(cfg):
    """Does what happens after a state depend on more than that state?  avoid_goingback looks at the
    state before the predecessor; with non-emitting states on, the search skips nodes already visited
    in the current chain of non-emitting states (`_node_in_prev_ne` walks the predecessors) and the
    distance family accumulates d_o/d_s over the run - so which of two equally probable predecessors
    won an entry changes what can follow."""
    if cfg.get("avoid_goingback", True):
        return True
    return bool(cfg.get("non_emitting_states", True))


def tie_upstream(cfg, *sessions):
    """A numeric difference between twins is inconclusive (not a violation) only when the model is
    history dependent AND, in one of the lattices, two candidates for the SAME lattice entry were
    exactly equally probable (R-audit over the recorded losing predecessors): a tie broken in another
    arrival order legitimately changes later penalties / accumulated distances."""
    if not history_dependent(cfg):
        return False
    from .oracles_a import same_key_tie
    return any(s.matcher is not None and same_key_tie(s.doc, s.matcher) for s in sessions)
