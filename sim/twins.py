"""Twin-session machinery: run two sessions that must agree and compare their canonical
observations."""
import copy
import math

from .world_a import run_session
from .refscore import close


def clone(doc):
    return copy.deepcopy(doc)


def run_obs(doc, log_level=None, on_op=None):
    sess = run_session(doc, on_op=on_op, log_level=log_level)
    return sess


def numeric_sig(o):
    return (o["idx"], o["bestE"], o["tail"], o["tailE"])


def num_equal(a, b, rel=1e-9, abs_=1e-12):
    if a is None or b is None:
        return a is None and b is None
    if isinstance(a, (list, tuple)):
        if not isinstance(b, (list, tuple)) or len(a) != len(b):
            return False
        return all(num_equal(x, y, rel, abs_) for x, y in zip(a, b))
    if isinstance(a, float) or isinstance(b, float):
        return close(float(a), float(b), rel, abs_)
    return a == b


def compare(a, b, rel=1e-9, abs_=1e-12, path_map=None):
    """Compare two canonical observations.  Returns 'equal', 'tie' (same numbers, other path)
    or 'diff:<what>'.  path_map renames b's states before comparing (relabelling twins)."""
    if (a is None) != (b is None):
        return "diff:outcome"
    if a is None:
        return "equal"
    if a["empty"] != b["empty"] or a["none"] != b["none"]:
        return "diff:empty"
    if a["idx"] != b["idx"]:
        return "diff:idx"
    if not num_equal(a["bestE"], b["bestE"], rel, abs_):
        return "diff:bestE"
    if not num_equal(a["tail"], b["tail"], rel, abs_):
        return "diff:tail"
    if not num_equal(a["tailE"], b["tailE"], rel, abs_):
        return "diff:tailE"
    pb = b["path"]
    sb = b["states"]
    if path_map is not None:
        pb = [[path_map(s), o, n] for s, o, n in pb]
        sb = None if sb is None else [path_map(s) for s in sb]
    if a["path"] != pb or a["states"] != sb or not num_equal(a["path_lp"], b["path_lp"], rel, abs_):
        # index, best probability and the probability of the returned path agree: an exactly
        # equally probable alternative was chosen
        return "tie"
    return "equal"


def outcome_kind(o):
    if o.exc is not None:
        return "exc:" + type(o.exc).__name__
    return "ok"


def max_live_size(matcher):
    """Largest number of live (non-stopped) entries in any column/layer."""
    mx = 0
    for col in (matcher.lattice or {}).values():
        for layer in col.o:
            mx = max(mx, sum(1 for e in layer.values() if not e.stop))
    return mx
