#!/usr/bin/env python3
"""tools_seed_prompts.py <hints.json> : writes /tmp/seed/<ID>.prompt for every key of hints.json ({"L1": "Focus on ...", ...})
and the property texts /tmp/seed/Cxx.txt.  The prompts are what the independent sub-agents of the seeded-change
rounds get (DESIGN.md section 12): the property texts, a scratch worktree, a focus area, and the list of code sites
earlier rounds have used.  Nothing from /verif is shown to them."""
import json
import os
import sys

TMPL = '''You are helping to evaluate a verification harness by producing a realistic, subtle bug ("seeded change") in a Python library. Work ONLY inside the git worktree at /tmp/seed/@ID@ (a checkout of the pure-Python HMM map-matching library LeuvenMapMatching; package directory `leuvenmapmatching/`, tests in `tests/`). Do NOT read, list or touch anything under /verif or /repo, and do not look at other directories under /tmp/seed.

The semantic property you must break:

@TEXT@

Task
1. Read the relevant library code (matcher/base.py, matcher/simple.py, matcher/distance.py, map/base.py, map/inmem.py, map/sqlite.py, util/dist_euclidean.py, util/dist_latlon.py, util/segment.py as relevant) to understand how the property is currently achieved.
2. Make a SMALL change to the library source under leuvenmapmatching/ (a few lines; the kind of slip a real developer could make in a refactoring, optimisation or "clean-up") that makes the property FALSE for some inputs, while:
   (a) the package still imports and works for ordinary use;
   (b) the existing test-suite results are unchanged. Run
       cd /tmp/seed/@ID@ && mkdir -p /tmp/seed/@ID@/_tmp && TMPDIR=/tmp/seed/@ID@/_tmp /venv/bin/python -m pytest -q -p no:cacheprovider --timeout=900 --continue-on-collection-errors 2>&1 | tail -5
       (the private TMPDIR matters: some tests write a shared SQLite file into the temp directory and concurrent runs collide otherwise)
       before and after: exactly the same 43 tests must pass (7 others fail/error both before and after, for unrelated reasons such as missing optional dependencies);
   (c) the breakage is NOT exposed by ordinary single-call use at once: it must need something specific to manifest - a particular multi-step sequence of operations, an unusual but valid input or configuration, a specific ordering, or two cooperating code sites that each look fine alone.
3. Write a standalone demonstration `demo.py` that builds a small map and trace with the library's public API, exercises the property, and exits with a non-zero status (failed assertion) WITH your change and exits 0 on the ORIGINAL code. Run it as
       cd /tmp/seed/@ID@ && PYTHONPATH=/tmp/seed/@ID@ /venv/bin/python demo.py
   (PYTHONPATH matters: an installed copy of the library exists in /venv and would otherwise be imported.) Verify both directions yourself. IMPORTANT: do NOT use `git stash` (the stash is shared between several worktrees of this repository and other people are working in sibling worktrees); switch between original and changed code with `git diff -- leuvenmapmatching > /tmp/seed/@ID@/_mine.diff`, `git apply -R /tmp/seed/@ID@/_mine.diff`, `git apply /tmp/seed/@ID@/_mine.diff`.
4. Deliver in the directory /tmp/seed/@ID@/_out/ :
   - patch.diff : output of `git diff -- leuvenmapmatching` (library change only, must apply with `git apply` on the original checkout)
   - demo.py    : the demonstration
   - notes.md   : what you changed, why it breaks the property, and exactly what is needed for it to manifest
   Leave the worktree with your change applied (uncommitted). Do not commit.

@HINT@ @USED@ Keep the change minimal and plausible. Do not break unrelated behaviour. In your final message, summarise the change in 5 lines or fewer and state the results of the test-suite run and of the demo in both directions.
'''

USED = ("Other people have already seeded bugs in BaseMatching._update_inner / update / next (stop rule, new_stop flag, beta choice, distance accumulation, not-connected penalty), SimpleMatcher.logprob_trans guards, SimpleMatcher.logprob_obs (floor), "
        "the same-edge test of DistanceMatcher.logprob_trans, the dist_noise_ne default, SqliteMap.read_properties / save_properties (mutable default), the commit calls, create_db (tables kept), the bounding box and the edge identifiers of "
        "SqliteMap.add_edge/add_edges, SqliteMap.add_node (index row), all_nodes(bb), nodes_closeto, SqliteMap.edges_closeto (zero-length edges), the main loop start index, early_stop_idx / expand_now handling in match(), "
        "LatticeColumn.upsert / prune / set_delayed / values (set), the re-prune calls, the `unique` collapse, node_path_to_only_nodes (falsy label), the falsy-label test in _match_non_emitting_states_inner, the loop bound of _build_matching_path, "
        "a skipped re-backtracking in _build_node_path, _create_start_nodes (return value, max_elmt), the use_latlon setter of BaseMap, InMemMap.__init__ (shared default graph), from_pickle (cache), deserialize (crs key), a cache inside InMemMap.edges_nbrto, "
        "InMemMap.add_node / nodes_nbrto / edges_closeto / bb, best_last_matches, the shared edge_o segment, dist_euclidean.distance (extra components) and project, dist_latlon (segment-to-segment interpolation, zero-length test, "
        "bearing normalisation, ti clamp, longitude clamp of box_around_point), Segment.key / label comparisons, prune_value, the logprobe copy in _update_inner, the `self.lattice = dict()` reset in _create_start_nodes, a cache in LatticeColumn.values_all, identity comparison of labels in the non-emitting search, the SQL of reindex_edges, exception safety of InMemMap.add_edge, the outside-both-segments case of the planar segment-to-segment distance, the `self.path = path` assignments in match(), the non_emitting_length_factor default, d_o in DistanceMatching._update_inner, the SQL of reindex_nodes, a has-linked-roads flag on SqliteMap, the end-state choice in _build_node_path, the sort in InMemMap.nodes_closeto/edges_closeto, a class-level `matcher` attribute on BaseMatching, a memo of observation distances in DistanceMatcher, the `unique` default of increase_max_lattice_width, the file name built in InMemMap.dump, a shortcut in the geodesic segment-to-segment distance, batching in SqliteMap.add_nodes, the upsert calls of _match_non_emitting_states_end and the lattice_best dictionary of _match_non_emitting_states, a longitude clamp in the geodesic point-to-segment projection, a set over the neighbour list in _match_states, BaseMatcher._insert, the `not m.stop` filter of the non-emitting search, the parallel test of the planar segment-to-segment distance - do something else.")


def main():
    hints = json.load(open(sys.argv[1]))
    os.makedirs("/tmp/seed", exist_ok=True)
    here = os.path.dirname(os.path.realpath(__file__))
    texts = {}
    for l in open(os.path.join(here, "properties.jsonl")):
        p = json.loads(l)
        texts[p["id"]] = "Property %s: %s\n\nStatement: %s\n\nQuantified over: %s\n" % (
            p["id"], p["title"], p["statement"], p["quantifier"]["text"])
    claimed = [c["property_id"] for c in json.load(open(os.path.join(here, "MANIFEST.json")))["checks"]]
    allp = "\n\n".join(texts[k] for k in claimed)
    for w, h in hints.items():
        p = TMPL.replace("@ID@", w).replace(
            "@TEXT@", "You may choose ANY ONE of the following properties (say which one you chose in notes.md):\n\n" + allp)
        p = p.replace("@HINT@", h).replace("@USED@", USED)
        open("/tmp/seed/%s.prompt" % w, "w").write(p)
        print("wrote /tmp/seed/%s.prompt" % w)


if __name__ == "__main__":
    main()
