#!/bin/bash
# Runs the repository's pinned baseline and checks that exactly the 43 stable tests pass.
cd "${1:-/repo}" || exit 2
out=$(/venv/bin/python -m pytest -ra -q -p no:cacheprovider --timeout=900 --continue-on-collection-errors --junitxml=/dev/shm/lmm-baseline-$$.xml 2>&1)
/venv/bin/python - /dev/shm/lmm-baseline-$$.xml <<'PY'
import sys, json, xml.etree.ElementTree as ET
base = json.load(open('/root/.vp/BASELINE.json'))
want = set(base['stable_pass'])
got = set()
for tc in ET.parse(sys.argv[1]).getroot().iter('testcase'):
    if not any(ch.tag in ('failure', 'error', 'skipped') for ch in tc):
        got.add(tc.get('classname') + '::' + tc.get('name'))
missing = sorted(want - got)
print('baseline: %d of %d stable tests pass; newly passing: %s' % (len(want & got), len(want), sorted(got - want)))
if missing:
    print('MISSING:', missing)
    sys.exit(1)
PY
rc=$?
rm -f /dev/shm/lmm-baseline-$$.xml
exit $rc
