#!/venv/bin/python
"""Automated mutation sweep (a measuring tool, not a registered check).

Draws small syntactic mutations of the repository (operator flips, constant changes, deleted
assignments), keeps those that still pass the pinned baseline suite, and runs the relevant quick
checks against each survivor.  Every mutant that passes BOTH is written to out/sweep/ for inspection:
it is either equivalent or a hole in the checks.

  tools_mutation_sweep.py <n-mutants> [<seed>]
"""
import json
import os
import random
import re
import shutil
import subprocess
import sys
import tempfile
import time

REPO = "/repo"
VERIF = os.path.dirname(os.path.realpath(__file__))
OUT = os.path.join(VERIF, "out", "sweep")
FILES = {
    "leuvenmapmatching/matcher/base.py": (["C01", "C02", "C03", "C04", "C05", "C06", "C07", "C08", "C09", "C10", "C19", "C17"], 8),
    "leuvenmapmatching/matcher/simple.py": (["C01", "C02", "C06", "C15", "C17"], 1),
    "leuvenmapmatching/matcher/distance.py": (["C01", "C02", "C06", "C08", "C15", "C10"], 2),
    "leuvenmapmatching/map/inmem.py": (["C11", "C12", "C18", "C04", "C01"], 2),
    "leuvenmapmatching/map/sqlite.py": (["C11", "C12", "C18"], 3),
    "leuvenmapmatching/map/base.py": (["C12", "C18", "C04"], 1),
    "leuvenmapmatching/util/dist_euclidean.py": (["C02", "C05", "C11", "C16", "C17"], 1),
    "leuvenmapmatching/util/dist_latlon.py": (["C05", "C11", "C15", "C17"], 2),
    "leuvenmapmatching/util/segment.py": (["C02", "C17", "C05"], 1),
}
# only functions the properties talk about (skip visualisation, stats, printing, optional deps)
SKIP_FUNCS = ("print_lattice", "lattice_dot", "print_lattice_stats", "inspect_early_stopping", "__str__", "__repr__",
              "repr_header", "repr_static", "copy_lastinterface", "path_bb", "node_counts", "to_xy", "setup_index",
              "fill_index", "rtree_size", "rtree_fn", "find_duplicates", "print_stats", "nodes_to_paths", "path_dist",
              "latlon2xy", "latlon2yx", "xy2latlon", "yx2latlon", "match_gpx", "purge", "del_node", "interpolate_path",
              "vertices_labels_to_int", "vertex_label_to_int", "get_matching", "path_pred_distance", "path_distance",
              "path_all_distances", "lines_parallel", "connect_parallelroads")
MUTS = [
    (r" < ", " <= "), (r" <= ", " < "), (r" > ", " >= "), (r" >= ", " > "), (r" == ", " != "), (r" != ", " == "),
    (r" and ", " or "), (r" or ", " and "), (r" \+ ", " - "), (r" - ", " + "), (r" \+= ", " -= "),
    (r"\bTrue\b", "False"), (r"\bFalse\b", "True"), (r" not ", " "), (r"\b0\.5\b", "0.6"), (r"\b0\.99\b", "0.9"),
    (r"\b0\.9\b", "0.8"), (r"\b1\b", "2"), (r"\b0\b", "1"), (r"\bmin\(", "max("), (r"\bmax\(", "min("),
    (r" \* ", " / "), (r" is not None", " is None"), (r" is None", " is not None"),
]


def candidate_lines(src):
    out = []
    func = None
    in_doc = False
    for i, line in enumerate(src):
        st = line.strip()
        if st.count('"""') == 1:
            in_doc = not in_doc
            continue
        if in_doc or st.count('"""') >= 2:
            continue
        m = re.match(r"\s*def (\w+)", line)
        if m:
            func = m.group(1)
        if func in SKIP_FUNCS or func is None:
            continue
        if not st or st.startswith("#") or st.startswith(("logger.", "print(", "import ", "from ", "def ", "class ",
                                                           "raise ", "assert ", "@")):
            continue
        if "logger." in st or "__debug__" in st or "isEnabledFor" in st or "t_start" in st or "t_delta" in st:
            continue
        out.append(i)
    return out


def make_mutant(rng):
    rels = list(FILES)
    rel = rng.choices(rels, weights=[FILES[r][1] for r in rels])[0]
    src = open(os.path.join(REPO, rel)).read().split("\n")
    lines = candidate_lines(src)
    for _ in range(200):
        i = rng.choice(lines)
        code = src[i].split("  #")[0]
        if rng.random() < 0.12 and re.match(r"\s+(self\.)?\w+(\.\w+)* = [^=]", src[i]) and not src[i].rstrip().endswith((",", "(", "\\")):
            new = re.sub(r"^(\s+)\S.*$", r"\1pass", src[i])
            kind = "delete-assignment"
        else:
            pat, rep = rng.choice(MUTS)
            ms = list(re.finditer(pat, code))
            if not ms:
                continue
            m = rng.choice(ms)
            new = code[:m.start()] + rep + code[m.end():] + src[i][len(code):]
            kind = "%s -> %s" % (pat.strip(), rep.strip())
        if new == src[i]:
            continue
        mut = list(src)
        mut[i] = new
        return rel, i + 1, src[i].strip(), new.strip(), kind, "\n".join(mut)
    return None


def main():
    n = int(sys.argv[1])
    seed = int(sys.argv[2]) if len(sys.argv) > 2 else 1
    rng = random.Random(seed)
    os.makedirs(OUT, exist_ok=True)
    log = open(os.path.join(OUT, "sweep-%d.log" % seed), "a")
    stats = {"mutants": 0, "broken": 0, "killed_by_baseline": 0, "killed_by_checks": 0, "survived": 0}

    def say(msg):
        log.write(msg + "\n")
        log.flush()
        print(msg, flush=True)
    for k in range(n):
        mu = make_mutant(rng)
        if mu is None:
            continue
        rel, lineno, old, new, kind, text = mu
        stats["mutants"] += 1
        S = tempfile.mkdtemp(prefix="lmm-sweep-", dir="/dev/shm")
        try:
            subprocess.run(["rsync", "-a", "--exclude", ".git", "--exclude", "build", "--exclude", "__pycache__",
                            REPO + "/", S + "/repo/"], check=True)
            with open(os.path.join(S, "repo", rel), "w") as f:
                f.write(text)
            try:
                compile(text, rel, "exec")
            except SyntaxError:
                stats["broken"] += 1
                continue
            os.makedirs(S + "/tmp")
            env = dict(os.environ, TMPDIR=S + "/tmp")
            r = subprocess.run([os.path.join(VERIF, "tools_baseline.sh"), S + "/repo"], env=env, capture_output=True, text=True)
            tag = "%s:%d [%s] %s  =>  %s" % (rel.split("/")[-1], lineno, kind, old[:70], new[:70])
            if r.returncode != 0:
                stats["killed_by_baseline"] += 1
                say("#%d baseline kills  %s" % (k, tag))
                continue
            caught = None
            env2 = dict(os.environ, VERIF_REPO=S + "/repo")
            for prop in FILES[rel][0]:
                r = subprocess.run(["/venv/bin/python", os.path.join(VERIF, "sim", "driver.py"), "check", prop, "--tier", "quick",
                                    "--no-evidence"], env=env2, capture_output=True, text=True, cwd=VERIF)
                v = [l for l in r.stdout.splitlines() if l.startswith("VIOLATION ")]
                if r.returncode == 1 and v:
                    caught = (prop, v[0].split("class=")[1].split()[0] if "class=" in v[0] else "?")
                    break
                if r.returncode == 2:
                    caught = (prop, "HARNESS-ERROR " + r.stdout[-200:].replace("\n", " "))
                    break
            if caught:
                stats["killed_by_checks"] += 1
                say("#%d checks kill    %s   [%s %s]" % (k, tag, caught[0], caught[1]))
            else:
                stats["survived"] += 1
                say("#%d SURVIVED       %s" % (k, tag))
                with open(os.path.join(OUT, "survivor-%d-%d.json" % (seed, k)), "w") as f:
                    json.dump({"file": rel, "line": lineno, "old": old, "new": new, "kind": kind}, f, indent=1)
        finally:
            shutil.rmtree(S, ignore_errors=True)
    say("SUMMARY seed=%d %s" % (seed, json.dumps(stats)))


if __name__ == "__main__":
    main()
